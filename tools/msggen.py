"""Rust code generation for whole-message harnesses, driven by /repo's message tables.

For a message module id (e.g. msg1004) and a list-length parameter n it produces
  * the bit layout (list of leaf field instances and total width) when the layout is fixed
  * a Rust expression building a symbolic value of the message type (`any` builders)
Float fields are built according to `fmode`:
  "bits"  every f32/f64 bit pattern (NaN, inf, subnormals included) — C09
  "cand"  a symbolic choice among boundary candidates of the field (0, +-res, ends of range, just
          outside, 1.5 res, NaN, +inf; None for optionals) — C01, C12
  "grid"  k*res(+bias) for a small symbolic integer k — cheap on-grid values
"""
import repo_tables

MSM_GNSS_TABLE = {"gps": "GPS", "glo": "GLO", "gal": "GAL", "sbas": "SBAS", "qzss": "QZSS", "bds": "BDS", "navic": "NAVIC"}


class GenError(Exception):
    pass


class MsgGen:
    def __init__(self, T):
        self.T = T

    # ------------------------------------------------------------------ type names
    def elem_type(self, fid):
        fr = self.T.frags[fid]
        return "rtcm_rs::msg::%s" % fr["type_name"]

    def cap_of(self, fr):
        return self.T.caps[fr["cap"]]

    # ------------------------------------------------------------------ layout
    def width(self, fid, n):
        """total bits of fragment fid with every list/string at n elements; None if not fixed"""
        T = self.T
        k = T.classify(fid)
        if k == "df":
            return T.field[fid]["len"]
        if k == "str":
            return T.str[fid]["len_bits"] + 8 * n
        if k == "special":
            if fid == "df_msg1029_utf8_str":
                return 15 + 8 * n  # ASCII only
            if fid == "df_msg1230_biases":
                return 4 + 16 * n
            if fid == "df_msg1059_biases":
                return 6 + n * (6 + 5 + 5 + 14)  # one entry per satellite, recognised signals
            if fid == "df_msg1065_biases":
                return 6 + n * (5 + 5 + 5 + 14)
        fr = T.frags[fid]
        if k == "msg":
            tot = 0
            for _, sub, _ in fr["fields"]:
                w = self.width(sub, n)
                if w is None:
                    return None
                tot += w
            return tot
        if k == "msg_len_middle":
            tot = self.width(fr["len_field"], n)
            for _, sub, _ in fr["fields1"] + fr["fields2"]:
                tot += self.width(sub, n)
            ew = self.width(T.frags[fr["vec_field"][1]]["frag_id"], n)
            return tot + n * ew
        if k == "frag_vec":
            return n * self.width(fr["frag_id"], n)
        if k == "frag_vec_with_len":
            return fr["len_bits"] + n * self.width(fr["frag_id"], n)
        if k == "frag_grid16p":
            return 16 * self.width(fr["frag_id"], n)
        return None

    def has_var(self, fid):
        """does the fragment contain a list/string (so that n matters)?"""
        T = self.T
        k = T.classify(fid)
        if k == "df":
            return False
        if k in ("str", "special", "frag_vec", "frag_vec_with_len", "msg_len_middle", "msm_data_seg_frag"):
            return True
        fr = T.frags[fid]
        if k == "msg":
            return any(self.has_var(s) for _, s, _ in fr["fields"])
        if k == "frag_grid16p":
            return self.has_var(fr["frag_id"])
        return False

    def is_msm(self, fid):
        fr = self.T.frags.get(fid)
        if not fr or fr["macro"] != "msg":
            return False
        return any(self.T.classify(s) == "msm_data_seg_frag" for _, s, _ in fr["fields"])

    def max_cap(self, fid):
        """largest DataVec capacity reachable (drives the unwind bound for ArrayVec::default)"""
        T = self.T
        k = T.classify(fid)
        if k in ("df",):
            return 0
        if k == "str":
            return T.caps[T.str[fid]["cap"]]
        if k == "special":
            return {"df_msg1029_utf8_str": 255, "df_msg1230_biases": 4, "df_msg1059_biases": 390, "df_msg1065_biases": 390}[fid]
        fr = T.frags[fid]
        if k == "msg":
            return max([self.max_cap(s) for _, s, _ in fr["fields"]] + [0])
        if k == "msg_len_middle":
            return max([self.max_cap(fr["vec_field"][1])] + [self.max_cap(s) for _, s, _ in fr["fields1"] + fr["fields2"]])
        if k in ("frag_vec", "frag_vec_with_len"):
            return max(self.cap_of(fr), self.max_cap(fr["frag_id"]))
        if k == "frag_grid16p":
            return max(16, self.max_cap(fr["frag_id"]))
        if k == "msm_data_seg_frag":
            return 64
        return 0

    def count_leaves(self, fid, n):
        T = self.T
        k = T.classify(fid)
        if k == "df":
            return 1
        if k == "str":
            return 1 + n
        if k == "special":
            return 2 + 3 * n
        fr = T.frags[fid]
        if k == "msg":
            return sum(self.count_leaves(s, n) for _, s, _ in fr["fields"])
        if k == "msg_len_middle":
            return 1 + sum(self.count_leaves(s, n) for _, s, _ in fr["fields1"] + fr["fields2"]) + n * self.count_leaves(T.frags[fr["vec_field"][1]]["frag_id"], n)
        if k in ("frag_vec", "frag_vec_with_len"):
            return 1 + n * self.count_leaves(fr["frag_id"], n)
        if k == "frag_grid16p":
            return 16 * self.count_leaves(fr["frag_id"], n)
        if k == "msm_data_seg_frag":
            return 3 + n * self.count_leaves_fields(T.frags[fr["sat_id"]]) + 2 * n * self.count_leaves_fields(T.frags[fr["sig_id"]])
        return 1

    def count_floats(self, fid, n):
        T = self.T
        k = T.classify(fid)
        if k == "df":
            return 1 if T.field[fid]["is_float"] else 0
        if k == "str":
            return 0
        if k == "special":
            return n if fid != "df_msg1029_utf8_str" else 0
        fr = T.frags[fid]
        if k == "msg":
            return sum(self.count_floats(s, n) for _, s, _ in fr["fields"])
        if k == "msg_len_middle":
            return sum(self.count_floats(s, n) for _, s, _ in fr["fields1"] + fr["fields2"]) + n * self.count_floats(T.frags[fr["vec_field"][1]]["frag_id"], n)
        if k in ("frag_vec", "frag_vec_with_len"):
            return n * self.count_floats(fr["frag_id"], n)
        if k == "frag_grid16p":
            return 16 * self.count_floats(fr["frag_id"], n)
        if k == "msm_data_seg_frag":
            return n * sum(self.count_floats(s, n) for _, s, _ in T.frags[fr["sat_id"]]["fields"] + T.frags[fr["sig_id"]]["fields"])
        return 0

    def count_leaves_fields(self, fr):
        return len(fr["fields"])

    # ------------------------------------------------------------------ float candidates
    def float_expr(self, f, fmode, tag):
        dt = f["dt"]
        if fmode == "bits":
            inner = "%s::from_bits(kani::any())" % dt
            if f["optional"]:
                return "if kani::any() { Some(%s) } else { None }" % inner
            return inner
        res = "(%s)" % f["res_src"] if f["res_src"] else "1.0"
        bias = " + (%s)" % f["bias_src"] if f["bias_src"] else ""
        lo, hi = self._krange(f)
        if fmode == "grid":
            inner = "{ let k: i8 = kani::any(); (k as %s) * %s%s }" % (dt, res, bias)
            if f["optional"]:
                return "if kani::any() { Some(%s) } else { None }" % inner
            return inner
        ks = [0, 1, hi, hi + 1]
        if lo < 0:
            ks += [-1, lo, lo - 1]
        cands = ["((%d_i64) as %s) * %s%s" % (k, dt, res, bias) for k in ks]
        cands += ["1.5 * %s%s" % (res, bias), "%s::NAN" % dt, "%s::INFINITY" % dt]
        if f["inv"] is not None:
            cands.append("((%d_i64) as %s) * %s%s" % (f["inv"], dt, res, bias))
        arms = []
        for i, c in enumerate(cands):
            v = "Some(%s)" % c if f["optional"] else c
            arms.append("%d => %s," % (i, v))
        last = "None" if f["optional"] else cands[0]
        return "{ let sel: u8 = kani::any(); match sel { %s _ => %s } }" % (" ".join(arms), last)

    def _krange(self, f):
        ln = f["len"]
        if f["kind"] == "u":
            return 0, (1 << ln) - 1
        if f["kind"] == "s":
            return -(1 << (ln - 1)), (1 << (ln - 1)) - 1
        return -((1 << (ln - 1)) - 1), (1 << (ln - 1)) - 1

    # ------------------------------------------------------------------ symbolic value builders
    def any_expr(self, fid, n, fmode, sat_ids=None):
        """Rust expression of type <fid>::DataType with list parts of length n"""
        T = self.T
        k = T.classify(fid)
        if k == "df":
            f = T.field[fid]
            if f["is_float"]:
                return self.float_expr(f, fmode, fid)
            if f["optional"]:
                return "if kani::any() { Some(kani::any()) } else { None }"
            return "kani::any()"
        if k == "str":
            cap = T.caps[T.str[fid]["cap"]]
            pushes = " ".join("s.push(kani::any());" for _ in range(min(n, cap)))
            return "{ let mut s = rtcm_rs::util::Df88591String::<%d>::new(); %s s }" % (cap, pushes)
        if k == "special":
            if fid == "df_msg1029_utf8_str":
                chars = " ".join("{ let c: u8 = kani::any(); kani::assume(c < 128); let _ = s.try_push(c as char); }" for _ in range(n))
                return "{ let mut s = rtcm_rs::util::ArrayString::<255>::new(); %s s }" % chars
            if fid == "df_msg1230_biases":
                sigs = [(1, "C"), (1, "P"), (2, "C"), (2, "P")]
                pushes = " ".join("v.push(rtcm_rs::msg::Msg1230CodePhaseBias { signal_id: rtcm_rs::msg::GloSigId::new(%d, '%s'), bias_m: %s });" % (sigs[i][0], sigs[i][1], self._bias_expr(fmode)) for i in range(min(n, 4)))
                return "{ let mut v = rtcm_rs::util::DataVec::<rtcm_rs::msg::Msg1230CodePhaseBias, 4>::new(); %s v }" % pushes
            if fid in ("df_msg1059_biases", "df_msg1065_biases"):
                num = fid[6:10]
                sig = "GpsSigId" if num == "1059" else "GloSigId"
                tab = T.ssr[num]
                pushes = []
                for i in range(n):
                    sid, band, attr = tab[i % len(tab)]
                    pushes.append("v.push(rtcm_rs::msg::Msg%sCodeBias { satellite_id: %d, signal_id: rtcm_rs::msg::%s::new(%d, '%s'), bias_m: %s });" % (num, 3 + 4 * i, sig, band, attr, self._bias_expr(fmode)))
                return "{ let mut v = rtcm_rs::util::DataVec::<rtcm_rs::msg::Msg%sCodeBias, 390>::new(); %s v }" % (num, " ".join(pushes))
            raise GenError("special %s" % fid)
        fr = T.frags[fid]
        if k == "msg":
            parts = ["%s: %s" % (name, self.any_expr(sub, n, fmode)) for name, sub, _ in fr["fields"]]
            return "%s { %s }" % (self.elem_type(fid), ", ".join(parts))
        if k == "msg_len_middle":
            parts = ["%s: %s" % (name, self.any_expr(sub, n, fmode)) for name, sub, _ in fr["fields1"] + fr["fields2"]]
            parts.append("%s: %s" % (fr["vec_field"][0], self.any_expr(fr["vec_field"][1], n, fmode)))
            return "%s { %s }" % (self.elem_type(fid), ", ".join(parts))
        if k in ("frag_vec", "frag_vec_with_len"):
            cap = self.cap_of(fr)
            et = self.elem_type(fr["frag_id"])
            pushes = " ".join("v.push(%s);" % self.any_expr(fr["frag_id"], n, fmode) for _ in range(min(n, cap)))
            return "{ let mut v = rtcm_rs::util::DataVec::<%s, %d>::new(); %s v }" % (et, cap, pushes)
        if k == "frag_grid16p":
            et = self.elem_type(fr["frag_id"])
            return "{ let mut g = rtcm_rs::util::Grid16P::<%s>::new(); for e in g.iter_mut() { *e = %s; } g }" % (et, self.any_expr(fr["frag_id"], n, fmode))
        raise GenError("any_expr for %s (%s)" % (fid, k))

    def _bias_expr(self, fmode):
        if fmode == "bits":
            return "f32::from_bits(kani::any())"
        return "{ let k: i16 = kani::any(); (k as f32) * 0.01 }" if fmode == "grid" else "{ let sel: u8 = kani::any(); match sel { 0 => 0.0f32, 1 => 0.01, 2 => -0.02, 3 => 81.91, 4 => -81.92, 5 => 655.36, 6 => f32::NAN, _ => f32::INFINITY } }"

    # ------------------------------------------------------------------ float finiteness check on a decoded value
    def finite_checks(self, fid, path, n, out):
        """append Rust statements asserting every float reachable from `path` is finite"""
        T = self.T
        k = T.classify(fid)
        if k == "df":
            f = T.field[fid]
            if f["is_float"]:
                if f["optional"]:
                    out.append("if let Some(x) = %s { assert!(x.is_finite()); }" % path)
                else:
                    out.append("assert!(%s.is_finite());" % path)
            return
        if k == "str":
            return
        if k == "special":
            if fid in ("df_msg1059_biases", "df_msg1065_biases", "df_msg1230_biases"):
                out.append("for e in %s.iter() { assert!(e.bias_m.is_finite()); }" % path)
            return
        fr = T.frags[fid]
        if k == "msg":
            for name, sub, _ in fr["fields"]:
                self.finite_checks(sub, "%s.%s" % (path, name), n, out)
        elif k == "msg_len_middle":
            for name, sub, _ in fr["fields1"] + fr["fields2"]:
                self.finite_checks(sub, "%s.%s" % (path, name), n, out)
            self.finite_checks(fr["vec_field"][1], "%s.%s" % (path, fr["vec_field"][0]), n, out)
        elif k in ("frag_vec", "frag_vec_with_len", "frag_grid16p"):
            inner = []
            self.finite_checks(fr["frag_id"], "e", n, inner)
            if inner:
                out.append("for e in %s.iter() { %s }" % (path, " ".join(inner)))
        elif k == "msm_data_seg_frag":
            for part, sub in (("satellite_data", fr["sat_id"]), ("signal_data", fr["sig_id"])):
                inner = []
                for name, leaf, _ in T.frags[sub]["fields"]:
                    self.finite_checks(leaf, "e.%s" % name, n, inner)
                if inner:
                    out.append("for e in %s.%s.iter() { %s }" % (path, part, " ".join(inner)))
