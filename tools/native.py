"""Build and drive the native helper binaries (real rtcm-rs code, no solver)."""
import os
import shutil
import subprocess

ROOT = os.path.dirname(os.path.dirname(os.path.abspath(__file__)))
NDIR = os.path.join(ROOT, "native")
REPO = os.environ.get("VERIF_REPO", "/repo")


def gen_dfdrv_table(T):
    rows = []
    for f in T.fields:
        rows.append('        "%s" => run::<dfs::%s::DataType>(cmd, arg, %d, dfs::%s::encode, dfs::%s::decode),' % (f["id"], f["id"], f["len"], f["id"], f["id"]))
    src = "pub fn dispatch(cmd: &str, id: &str, arg: &str) -> String {\n    match id {\n" + "\n".join(rows) + '\n        _ => "nofield".to_string(),\n    }\n}\n'
    os.makedirs(os.path.join(NDIR, "src", "gen"), exist_ok=True)
    p = os.path.join(NDIR, "src", "gen", "dfdrv_table.rs")
    if not os.path.exists(p) or open(p).read() != src:
        open(p, "w").write(src)


def build(profile="release", overflow_checks=False):
    env = dict(os.environ, CARGO_NET_OFFLINE="true")
    env.pop("RUSTUP_TOOLCHAIN", None)
    flags = "--cfg rtcm_rs_verif"
    tdir = os.path.join(NDIR, "target-rel")
    if overflow_checks:
        flags += " -C overflow-checks=on"
        tdir = os.path.join(NDIR, "target-relchk")
    env["RUSTFLAGS"] = flags
    shutil.copyfile(os.path.join(REPO, "Cargo.lock"), os.path.join(NDIR, "Cargo.lock"))
    p = subprocess.run(["cargo", "build", "--release", "--offline", "--target-dir", tdir], cwd=NDIR, env=env, capture_output=True, text=True)
    if p.returncode != 0:
        raise RuntimeError("native build failed:\n" + p.stderr[-3000:])
    return os.path.join(tdir, "release")


def run_lines(binpath, lines):
    p = subprocess.run([binpath], input="\n".join(lines) + "\n", capture_output=True, text=True)
    return p.stdout.strip().split("\n")
