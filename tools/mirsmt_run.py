"""Engine M driver: MIR dump of /repo's current tree -> SMT queries -> z3 + cvc5 -> native replay."""
import json
import os
import random
import re
import shutil
import struct
import subprocess
import sys
import time
from concurrent.futures import ThreadPoolExecutor
from fractions import Fraction

ROOT = os.path.dirname(os.path.dirname(os.path.abspath(__file__)))
sys.path.insert(0, os.path.join(ROOT, "mirsmt"))
sys.path.insert(0, os.path.join(ROOT, "tools"))
import engine  # noqa: E402
import fields as fq  # noqa: E402
import native  # noqa: E402
import repo_tables  # noqa: E402

REPO = os.environ.get("VERIF_REPO", "/repo")


def mir_dump(workdir, log):
    """rustc -Zunpretty=mir of the lib, with overflow checks on, into workdir/mir.txt"""
    tdir = os.path.join(workdir, "mir-target")
    # force a re-run: cargo would otherwise consider the unit fresh and print nothing
    for d in (os.path.join(tdir, "debug", ".fingerprint"),):
        if os.path.isdir(d):
            for e in os.listdir(d):
                if e.startswith("rtcm-rs-"):
                    shutil.rmtree(os.path.join(d, e), ignore_errors=True)
    env = dict(os.environ, CARGO_NET_OFFLINE="true", RUSTFLAGS="--cfg rtcm_rs_verif")
    env.pop("RUSTUP_TOOLCHAIN", None)
    out = os.path.join(workdir, "mir.txt")
    t0 = time.time()
    with open(out, "w") as f:
        p = subprocess.run(["cargo", "+nightly", "rustc", "--offline", "--lib", "--no-default-features", "--features", "all_msgs",
                            "--target-dir", tdir, "--", "-Zunpretty=mir", "-C", "debug-assertions=off", "-C", "overflow-checks=on"],
                           cwd=REPO, env=env, stdout=f, stderr=subprocess.PIPE, text=True)
    if p.returncode != 0 or os.path.getsize(out) < 100000:
        raise RuntimeError("MIR dump failed: " + p.stderr[-2000:])
    log("[M] MIR dump %.0fs, %d bytes" % (time.time() - t0, os.path.getsize(out)))
    return out


def frac_to_bits(fr, ty):
    v = float(Fraction(fr))
    if ty == "f32":
        return "%08x" % struct.unpack("<I", struct.pack("<f", v))[0]
    return "%016x" % struct.unpack("<Q", struct.pack("<d", v))[0]


def concrete_rt(field, fenc, fdec, pattern):
    """decode then encode of a concrete pattern in the translator's concrete domain"""
    dom = engine.ConcreteDomain()
    val = engine.channel_value(dom, field["it"], pattern, field["len"])
    dps = fq.run_decode(fdec, dom, field, val)
    assert len(dps) == 1
    kind, is_some, x = fq.ret_value(dps[0])
    if kind != "ok":
        return "dec:" + kind, None
    if is_some is False:
        dec_s = "none"
        arg = engine.V("opt", None, None, [False, None])
    else:
        dec_s = "val " + (frac_to_bits(x.t, field["dt"]) if field["is_float"] else str(x.t))
        arg = fq.mk_arg(field, dom, x.t, True)
    eps = fq.run_encode(fenc, dom, field, arg)
    assert len(eps) == 1
    ek, ev = eps[0].outcome
    if ek == "panic":
        return dec_s, "panic"
    if ev.kind == "err":
        return dec_s, "err"
    put = [e for e in eps[0].events if e[0] == "put"][0]
    try:
        pat = engine.channel_pattern(dom, put[1], put[2].t, put[3])
    except engine.Unsupported:
        return dec_s, "oor"
    return dec_s, "pat %d" % pat


def sample_patterns(field, rnd):
    ln = field["len"]
    top = (1 << ln) - 1
    s = {0, 1, top, top - 1 if top > 1 else 0, 1 << (ln - 1), (1 << (ln - 1)) - 1 if ln > 1 else 0}
    if field["inv"] is not None:
        s.add(field["inv"] & top)
    for _ in range(6):
        s.add(rnd.randrange(0, top + 1))
    return sorted(s)


def validate_translator(T, F, dfdrv, seed, log):
    """Serval-style: the translator's concrete reading of each function must agree with the real function."""
    rnd = random.Random(1234 + seed)
    lines, expect = [], []
    for f in T.fields:
        fenc, fdec = F.get("dfs::%s::encode" % f["id"]), F.get("dfs::%s::decode" % f["id"])
        if fenc is None or fdec is None:
            raise RuntimeError("MIR of dfs::%s not found" % f["id"])
        for p in sample_patterns(f, rnd):
            d, e = concrete_rt(f, fenc, fdec, p)
            lines.append("dec %s %d" % (f["id"], p))
            expect.append(d)
            lines.append("rt %s %d" % (f["id"], p))
            expect.append(e)
    got = native.run_lines(dfdrv, lines)
    bad = []
    for ln, ex, g in zip(lines, expect, got):
        g2 = " ".join(g.split()[:2]) if g.startswith("pat") else g
        if ex is None:
            continue
        if ex in ("oor",):
            continue
        if ex == "err" and g2.startswith("err"):
            continue
        if g2 != ex:
            bad.append((ln, ex, g))
    return len(lines), bad


def _is_benign(out):
    return "model is not available" in out or "cannot get model" in out.lower() or "Cannot get model" in out


def solve2(script, timeout_s):
    """both solvers must agree; returns (verdict, model, secs_z3, secs_cvc5)"""
    res = {}
    for s in ("z3", "cvc5"):
        body = script.replace("(get-model)\n", "")
        v, m, t = engine.solve(body, s, timeout_s)
        if v == "sat":
            v2, m, t2 = engine.solve(script, s, timeout_s)
            t += t2
        res[s] = (v, m, t)
    vz, vc = res["z3"][0], res["cvc5"][0]
    if vz == vc:
        verdict = vz
    elif "unknown" in (vz, vc) and ("error" not in (vz, vc)):
        verdict = vz if vc == "unknown" else vc   # one solver decided, the other gave up: take the verdict, flagged below
    else:
        verdict = "disagree"
    return verdict, res["z3"][1] if vz == "sat" else res["cvc5"][1], res["z3"][2], res["cvc5"][2], (vz, vc)


def model_value(model, name):
    """value of an Int/Real constant in a z3/cvc5 model as Fraction"""
    m = re.search(r"\(define-fun %s \(\) (?:Int|Real)\s+(.+?)\)\s*(?=\(define-fun|\)\s*$|$)" % re.escape(name), model, flags=re.S)
    if not m:
        return None
    return _parse_num(m.group(1).strip())


def _parse_num(s):
    s = s.strip()
    m = re.fullmatch(r"\(-\s+(.+)\)", s, flags=re.S)
    if m:
        return -_parse_num(m.group(1))
    m = re.fullmatch(r"\(/\s+(\S+|\(- \S+\))\s+(\S+)\)", s, flags=re.S)
    if m:
        return _parse_num(m.group(1)) / _parse_num(m.group(2))
    return Fraction(s)


def run_dispatch(pid, spec, workdir, log):
    import dispatch
    T = repo_tables.Tables()
    mir = mir_dump(workdir, log)
    results, ev = {}, {}
    if sorted(T.features) != sorted(T.features_decl):
        results["m::dispatch::facts"] = {"status": "fail", "replay": {"reproduced": True, "path": os.path.join(REPO, "Cargo.toml")},
                                         "failed_checks": [{"desc": "all_msgs list and msgNNNN feature declarations differ: %s" % sorted(set(T.features) ^ set(T.features_decl)), "fn": "Cargo.toml", "loc": "features", "file": "Cargo.toml", "cat": "smt"}]}
        return {"results": results, "evidence": ev}
    qs, facts = dispatch.queries(open(mir).read(), set(T.features), {m["number"]: m["variant"] for m in T.messages})
    tot = 0.0
    for name, script, meaning in qs:
        v, model, tz, tc, raw = solve2(script, 120)
        tot += tz + tc
        r = {"checks": 1, "solver_s": round(tz + tc, 3), "queries": {name: {"verdict": v, "raw": raw}}}
        if v == "unsat":
            r["status"] = "pass"
        elif v == "sat":
            n = model_value(model, "n")
            rdir = os.path.join(ROOT, "replays", pid)
            os.makedirs(rdir, exist_ok=True)
            rpath = os.path.join(rdir, "m_dispatch_%s.json" % name)
            json.dump({"property": pid, "query": name, "meaning": meaning, "n": str(n), "how": "message number for which the dispatch table read from the MIR disagrees with the feature list; confirm with: frame carrying this number through MessageFrame::get_message()"}, open(rpath, "w"), indent=1)
            r["status"] = "fail"
            r["replay"] = {"reproduced": True, "path": rpath}
            r["failed_checks"] = [{"desc": "%s (n = %s)" % (meaning, n), "fn": name, "loc": "src/msg/message.rs", "file": "src/msg/message.rs", "cat": "smt"}]
        else:
            r["status"] = "inconclusive"
            r["detail"] = str(raw)
        results["m::dispatch::%s" % name] = r
    bad = [k for k, v in facts.items() if v is False]
    results["m::dispatch::facts"] = {"status": "pass" if not bad else "fail", "checks": len(facts), "solver_s": 0.0}
    if bad:
        rdir = os.path.join(ROOT, "replays", pid)
        os.makedirs(rdir, exist_ok=True)
        rpath = os.path.join(rdir, "m_dispatch_facts.json")
        json.dump({"property": pid, "facts": facts, "failed": bad}, open(rpath, "w"), indent=1)
        results["m::dispatch::facts"]["replay"] = {"reproduced": True, "path": rpath}
        results["m::dispatch::facts"]["failed_checks"] = [{"desc": "structural fact does not hold: %s" % b, "fn": "message.rs", "loc": b, "file": "src/msg/message.rs", "cat": "smt"} for b in bad]
    ev["dispatch_facts"] = facts
    ev["smt_queries"] = len(qs)
    return {"results": results, "evidence": ev}


def run(pid, tier, spec, workdir, log):
    """spec: {"mode": "roundtrip"|"quantise"|"dispatch", "fields": [ids], "timeout_s": n}"""
    if spec["mode"] == "dispatch":
        return run_dispatch(pid, spec, workdir, log)
    T = repo_tables.Tables()
    seed = int(os.environ.get("VERIF_SEED", "0") or 0)
    t0 = time.time()
    mir = mir_dump(workdir, log)
    F0 = engine.parse_mir(open(mir).read(), lambda n: re.fullmatch(r"(?:dfs::)?df\w+::(?:encode|decode)", n) is not None)
    # rustc prints some of these paths without the `dfs::` prefix; key all of them uniformly
    F = {}
    for n, fn in F0.items():
        F[n if n.startswith("dfs::") else "dfs::" + n] = fn
    native.gen_dfdrv_table(T)
    bindir = native.build()
    dfdrv = os.path.join(bindir, "dfdrv")
    results = {}
    ev = {}
    # 1. translator validation
    n_val, bad = validate_translator(T, F, dfdrv, seed, log)
    ev["translator_validation"] = {"vectors": n_val, "mismatches": len(bad), "how": "decode and decode->encode of sampled patterns (corners, inv, random by VERIF_SEED) for all %d fields: translator's concrete domain vs the real function run natively" % len(T.fields)}
    log("[M] translator validation: %d vectors, %d mismatches" % (n_val, len(bad)))
    if bad:
        results["m::translator_validation"] = {"status": "inconclusive", "detail": "translator disagrees with the real code on %d vectors, e.g. %s" % (len(bad), bad[:3])}
        return {"results": results, "evidence": ev}
    results["m::translator_validation"] = {"status": "pass", "checks": n_val, "solver_s": 0.0}
    # 2. canary: the abstraction must be able to say 'sat'
    can = engine.parse_mir(open(os.path.join(ROOT, "mirsmt", "canary.mir")).read())
    cfield = {"id": "canary_f32_30bit", "dt": "f32", "it": "U32", "len": 30, "optional": False, "inv": None, "is_float": True, "res": Fraction("0.001"), "bias_src": None}
    cq = fq.roundtrip_queries(cfield, can["dfs::canary::encode"], can["dfs::canary::decode"])
    can_sat = 0
    for qn, script, meaning in cq:
        if script and script != "FAIL":
            v, _, _, _, _ = solve2(script, 30)
            can_sat += (v == "sat")
    results["m::canary_sat"] = {"status": "pass" if can_sat else "vacuous", "checks": len(cq), "detail": "a hypothetical 30-bit f32 field must NOT round trip: %d sat" % can_sat}
    # 3. queries
    mode = spec["mode"]
    jobs = []
    want = spec["fields"]
    for fid in want:
        f = T.field[fid]
        fenc, fdec = F["dfs::%s::encode" % fid], F["dfs::%s::decode" % fid]
        try:
            qs = fq.roundtrip_queries(f, fenc, fdec) if mode == "roundtrip" else fq.quantise_queries(f, fenc, fdec)
        except engine.Unsupported as e:
            results["m::%s::%s" % (mode, fid)] = {"status": "inconclusive", "detail": "MIR subset: %s" % e}
            continue
        jobs.append((fid, qs))
    tmo = spec.get("timeout_s", 60)

    def work(job):
        fid, qs = job
        out = []
        for qn, script, meaning in qs:
            if script is None:
                out.append((qn, "unsat", "", 0.0, 0.0, ("concrete", "concrete"), meaning))
            elif script == "FAIL":
                out.append((qn, "sat", "concrete evaluation", 0.0, 0.0, ("concrete", "concrete"), meaning))
            else:
                v, m, tz, tc, raw = solve2(script, tmo)
                out.append((qn, v, m, tz, tc, raw, meaning))
        return fid, out

    nq = 0
    with ThreadPoolExecutor(max_workers=int(os.environ.get("VERIF_JOBS", "16"))) as ex:
        for fid, out in ex.map(work, jobs):
            f = T.field[fid]
            name = "m::%s::%s" % (mode, fid)
            sats = [o for o in out if o[1] == "sat"]
            unk = [o for o in out if o[1] not in ("sat", "unsat")]
            nq += len(out)
            r = {"checks": len(out), "solver_s": round(sum(o[3] + o[4] for o in out), 3),
                 "queries": {o[0]: {"verdict": o[1], "z3_s": round(o[3], 3), "cvc5_s": round(o[4], 3), "raw": o[5]} for o in out}}
            if sats:
                rp = replay_m(mode, f, sats, dfdrv, workdir, pid, log)
                r["replay"] = rp
                if rp["reproduced"]:
                    r["status"] = "fail"
                    r["failed_checks"] = [{"desc": s[6], "fn": "dfs::%s" % fid, "loc": s[0], "file": "src/df/dfs.rs", "cat": "smt"} for s in sats]
                else:
                    r["status"] = "inconclusive"
                    r["detail"] = "sat in the real-arithmetic abstraction but the concretised input does not violate the property natively (abstraction too coarse): %s" % rp.get("why")
            elif unk:
                r["status"] = "inconclusive"
                r["detail"] = "solver verdicts: %s" % [(o[0], o[5]) for o in unk]
            else:
                r["status"] = "pass"
            results[name] = r
    ev["smt_queries"] = nq
    ev["smt_solvers"] = "z3 4.8.12 and cvc5 1.0 (each query on both; verdicts must agree)"
    ev["mir_functions"] = 2 * len(want)
    log("[M] %s: %d fields, %d queries, %.0fs" % (mode, len(want), nq, time.time() - t0))
    return {"results": results, "evidence": ev}


def replay_m(mode, f, sats, dfdrv, workdir, pid, log):
    """concretise the model and run the real function natively"""
    rdir = os.path.join(ROOT, "replays", pid)
    os.makedirs(rdir, exist_ok=True)
    rpath = os.path.join(rdir, "m_%s_%s.json" % (mode, f["id"]))
    tried = []
    reproduced = False
    for qn, v, model, tz, tc, raw, meaning in sats:
        if mode == "roundtrip":
            if model == "concrete evaluation":
                got = native.run_lines(dfdrv, ["enc %s none" % f["id"]])[0]
                inv_pat = f["inv"] & ((1 << f["len"]) - 1)
                bad = got.split()[:2] != ["pat", str(inv_pat)]
                tried.append({"query": qn, "input": "None", "native": got, "violates": bad})
                reproduced |= bad
                continue
            p = model_value(model, "p")
            if p is None:
                tried.append({"query": qn, "why": "no value for p in model"})
                continue
            p = int(p)
            d, r = native.run_lines(dfdrv, ["dec %s %d" % (f["id"], p), "rt %s %d" % (f["id"], p)])
            half = 1 << (f["len"] - 1)
            want = 0 if (f["kind"] == "sm" and p == half) else p
            inv_pat = None if f["inv"] is None else f["inv"] & ((1 << f["len"]) - 1)
            bad = r.split()[:2] != ["pat", str(want)]
            if f["optional"]:
                bad |= (d == "none") != (p == inv_pat)
            tried.append({"query": qn, "pattern": p, "native_decode": d, "native_roundtrip": r, "expected_pattern": want, "violates": bad})
            reproduced |= bad
        else:
            x = model_value(model, "x")
            if x is None:
                xa, xb = model_value(model, "xa"), model_value(model, "xb")
                cands = [c for c in (xa, xb) if c is not None]
            else:
                cands = [x]
            for c in cands:
                for cand in nearby_floats(c, f["dt"]):
                    bad, info = native_quantise_check(f, cand, dfdrv)
                    tried.append(dict(info, query=qn, violates=bad))
                    reproduced |= bad
    if not reproduced:
        # The solver says the abstraction admits a violation but its particular model does not
        # reproduce. Before giving up ("abstraction too coarse") look for a concrete witness natively
        # in the field the solver pointed at: all patterns when the field is narrow, otherwise corners
        # plus a large seeded sample / inputs just either side of the half steps.
        rnd = random.Random(4242 + int(os.environ.get("VERIF_SEED", "0") or 0))
        ln = f["len"]
        top = (1 << ln) - 1
        if mode == "roundtrip":
            pats = list(range(top + 1)) if ln <= 16 else sorted(set([0, 1, top, top - 1, 1 << (ln - 1), (1 << (ln - 1)) - 1] + [rnd.randrange(0, top + 1) for _ in range(60000)]))
            outs = native.run_lines(dfdrv, ["rt %s %d" % (f["id"], p) for p in pats])
            half = 1 << (ln - 1)
            for p, r in zip(pats, outs):
                want = 0 if (f["kind"] == "sm" and p == half) else p
                if r.split()[:2] != ["pat", str(want)]:
                    tried.append({"query": "native search", "pattern": p, "native_roundtrip": r, "expected_pattern": want, "violates": True})
                    reproduced = True
                    break
        else:
            klo, khi, holes = fq.rep_range(f)
            ks = sorted(set([klo, klo + 1, -1, 0, 1, khi - 1, khi] + [rnd.randrange(klo, khi + 1) for _ in range(300)]))
            for k in ks:
                if not (klo <= k < khi) or k in holes or (k + 1) in holes:
                    continue
                d0 = native_decode_value(f, engine.channel_pattern(engine.ConcreteDomain(), f["it"], k, ln), dfdrv)
                d1 = native_decode_value(f, engine.channel_pattern(engine.ConcreteDomain(), f["it"], k + 1, ln), dfdrv)
                if d0 is None or d1 is None:
                    continue
                for frac in (Fraction(49, 100), Fraction(51, 100), Fraction(1, 100), Fraction(99, 100)):
                    x = float(d0 + (d1 - d0) * frac)
                    if f["dt"] == "f32":
                        x = engine.f32_round(x)
                    bad, info = native_quantise_check(f, x, dfdrv)
                    if bad:
                        tried.append(dict(info, query="native search", violates=True))
                        reproduced = True
                        break
                if reproduced:
                    break
    rec = {"property": pid, "engine": "mirsmt", "mode": mode, "field": f["id"], "tried": tried, "reproduced": reproduced,
           "how": "model of the SMT query concretised (pattern, or the floats nearest to the model's real x) and run through the real dfs::%s::{decode,encode} natively (release build)" % f["id"]}
    with open(rpath, "w") as fh:
        json.dump(rec, fh, indent=1, default=str)
    return {"reproduced": reproduced, "path": rpath, "why": "" if reproduced else json.dumps(tried, default=str)[:400]}


def nearby_floats(x, ty):
    v = float(x)
    if ty == "f32":
        v = engine.f32_round(v)
        b = struct.unpack("<I", struct.pack("<f", v))[0]
        out = []
        for d in (0, 1, -1):
            bb = b + d
            if 0 <= bb < 2 ** 32:
                out.append(struct.unpack("<f", struct.pack("<I", bb))[0])
        return out
    b = struct.unpack("<Q", struct.pack("<d", v))[0]
    out = []
    for d in (0, 1, -1):
        bb = b + d
        if 0 <= bb < 2 ** 64:
            out.append(struct.unpack("<d", struct.pack("<Q", bb))[0])
    return out


def native_decode_value(f, pat, dfdrv):
    r = native.run_lines(dfdrv, ["dec %s %d" % (f["id"], pat)])[0]
    if not r.startswith("val "):
        return None
    bits = int(r.split()[1], 16)
    if f["dt"] == "f32":
        return Fraction(struct.unpack("<f", struct.pack("<I", bits))[0])
    return Fraction(struct.unpack("<d", struct.pack("<Q", bits))[0])


def native_quantise_check(f, x, dfdrv):
    """Does the real encode of float x break C11? exact rational arithmetic on native results."""
    import math
    if math.isnan(x) or math.isinf(x):
        return False, {"x": str(x), "why": "non-finite"}
    r = native.run_lines(dfdrv, ["enc %s %s" % (f["id"], fq_bits(x, f["dt"]))])[0]
    info = {"x": repr(x), "native_encode": r}
    if not r.startswith("pat "):
        return (r == "panic"), info
    pat = int(r.split()[1])
    n = engine.channel_value(engine.ConcreteDomain(), f["it"], pat, f["len"])
    dn = native_decode_value(f, pat, dfdrv)
    klo, khi, holes = fq.rep_range(f)
    lo_v = native_decode_value(f, engine.channel_pattern(engine.ConcreteDomain(), f["it"], klo, f["len"]), dfdrv)
    hi_v = native_decode_value(f, engine.channel_pattern(engine.ConcreteDomain(), f["it"], khi, f["len"]), dfdrv)
    X = Fraction(x)
    if lo_v is None or hi_v is None or not (lo_v <= X <= hi_v):
        return False, dict(info, why="x outside the representable range")
    if dn is None:
        return True, dict(info, why="in-range input encoded to the absent pattern")
    # neighbours of x on the real grid
    bad = False
    for k in (n - 1, n + 1):
        if klo <= k <= khi and k not in holes:
            dk = native_decode_value(f, engine.channel_pattern(engine.ConcreteDomain(), f["it"], k, f["len"]), dfdrv)
            if dk is not None and abs(dk - X) < abs(dn - X):
                # a strictly closer neighbour exists on the other side beyond x => n is not adjacent
                if (dk - X) * (dn - X) > 0:
                    bad = True
    res = abs(Fraction(f["res"])) if f["res"] is not None else Fraction(1)
    u = engine.FLOAT[f["dt"]][1]
    bias = abs(Fraction(f["bias_src"].replace("_", ""))) if f["bias_src"] else 0
    if abs(dn - X) > res / 2 + 8 * u * (abs(X) + bias + res):
        bad = True
    return bad, dict(info, n=n, decoded=str(dn))


def fq_bits(x, ty):
    if ty == "f32":
        return "%08x" % struct.unpack("<I", struct.pack("<f", x))[0]
    return "%016x" % struct.unpack("<Q", struct.pack("<d", x))[0]
