#!/usr/bin/env python3
"""./check <property> [--tier quick|thorough] — decide one property of /repo by solver.

Pipeline (DESIGN.md section 2):
  1. tools/gen.py re-reads /repo's working tree and regenerates the harness sources + plan
  2. engine K: cargo kani (CBMC + CaDiCaL) over the real crate built with --cfg rtcm_rs_verif
     engine M: MIR -> SMT-LIB2 (z3, cross-checked by cvc5) for the float kernels / dispatch table
  3. every FAILED harness is replayed natively (release and release+overflow-checks) before it is
     reported; known findings are matched by role; evidence/<id>.json is rewritten.
Exit: 0 held / known findings only; 1 VIOLATION; 2 inconclusive (timeout, OOM, tool error,
non-reproducing counterexample) — never reported as success.
"""
import argparse
import hashlib
import json
import os
import re
import shutil
import subprocess
import sys
import time

ROOT = os.path.dirname(os.path.dirname(os.path.abspath(__file__)))
sys.path.insert(0, os.path.join(ROOT, "tools"))
REPO = os.environ.get("VERIF_REPO", "/repo")
KANI_DIR = os.path.join(ROOT, "kani")
ENV_BASE = dict(os.environ, CARGO_NET_OFFLINE="true", RUSTFLAGS="--cfg rtcm_rs_verif")
ENV_BASE.pop("RUSTUP_TOOLCHAIN", None)


def log(*a):
    print(*a, flush=True)


from guard import run_guarded, CHILD_PGIDS  # noqa: E402


def write_cargo_toml(d):
    """Cargo.toml from Cargo.toml.in with the repository path (default /repo; VERIF_REPO is only for
    running the machinery against a scratch copy when testing seeded changes)."""
    src = open(os.path.join(ROOT, d, "Cargo.toml.in")).read().replace("@REPO@", REPO)
    dst = os.path.join(ROOT, d, "Cargo.toml")
    if not os.path.exists(dst) or open(dst).read() != src:
        open(dst, "w").write(src)


def repo_tree_hash():
    h = hashlib.sha256()
    try:
        head = subprocess.run(["git", "-C", REPO, "rev-parse", "HEAD"], capture_output=True, text=True).stdout.strip()
    except Exception:
        head = "?"
    h.update(head.encode())
    for sub in ("src", "Cargo.toml"):
        p = os.path.join(REPO, sub)
        if os.path.isfile(p):
            h.update(open(p, "rb").read())
        else:
            for dp, dn, fn in sorted(os.walk(p)):
                dn.sort()
                for f in sorted(fn):
                    fp = os.path.join(dp, f)
                    h.update(fp.encode())
                    h.update(open(fp, "rb").read())
    return head[:12], h.hexdigest()[:16]





# ------------------------------------------------------------------------------------------------
# engine K
# ------------------------------------------------------------------------------------------------

def kani_group(pid, gname, group, harnesses, jobs, workdir):
    """Run one cargo-kani invocation for a list of harness names. Returns dict name -> result."""
    target = os.path.join(KANI_DIR, "target-%s-%s" % (pid.lower(), gname))
    out_json = os.path.join(workdir, "kani-%s-%s.json" % (pid, gname))
    out_log = os.path.join(workdir, "kani-%s-%s.log" % (pid, gname))
    if os.path.exists(out_json):
        os.remove(out_json)
    # drop stale goto binaries so disk use stays bounded
    stale = os.path.join(target, "kani")
    if os.path.isdir(stale):
        shutil.rmtree(stale, ignore_errors=True)
    cmd = ["cargo", "kani", "--features", ",".join(group["features"]), "--target-dir", target,
           "-j", str(jobs), "--output-format", "terse", "-Z", "unstable-options",
           "--export-json", out_json, "--harness-timeout", "%ds" % group["timeout_s"], "--exact"]
    for extra in group.get("kani_args", []):
        cmd.append(extra)
    for h in harnesses:
        cmd += ["--harness", h]
    cbmc_args = list(group.get("cbmc_args", []))
    if group.get("unwindset"):
        # per-loop bounds (DESIGN.md 2.2): a codegen-only pass, then `cbmc --show-loops` on every goto
        # binary to find the ids of the loops named by the patterns (e.g. the [T; N]::default() loop of
        # a 390-entry list) so that the global unwind bound can stay small. Unwinding assertions stay on.
        pre = ["cargo", "kani", "--features", ",".join(group["features"]), "--target-dir", target, "--exact", "--only-codegen"]
        pre += list(group.get("kani_args", []))
        for h in harnesses:
            pre += ["--harness", h]
        pp = subprocess.run(pre, cwd=KANI_DIR, env=ENV_BASE, capture_output=True, text=True)
        if pp.returncode != 0:
            with open(out_log + ".codegen", "w") as lf:
                lf.write(pp.stdout + pp.stderr)
        ids = {}
        import glob
        outs = glob.glob(os.path.join(target, "kani", "*", "debug", "build", "rtcm-verif-harness", "*", "out", "*.out"))
        outs = [o for o in outs if not o.endswith(".symtab.out")]
        for o in outs:
            try:
                txt = subprocess.run(["cbmc", "--show-loops", o], capture_output=True, text=True, timeout=300).stdout
            except Exception:
                continue
            for m in re.finditer(r"^Loop (\S+):\n\s+(.*)$", txt, flags=re.M):
                for pat, bound in group["unwindset"]:
                    if re.search(pat, m.group(2)) or re.search(pat, m.group(1)):
                        ids[m.group(1)] = max(bound, ids.get(m.group(1), 0))
        if ids:
            cbmc_args += ["--unwindset", ",".join("%s:%d" % kv for kv in sorted(ids.items()))]
    if cbmc_args:
        cmd += ["--cbmc-args"] + cbmc_args
        group["cbmc_args_resolved"] = cbmc_args
    t0 = time.time()
    rc = run_guarded(cmd, KANI_DIR, ENV_BASE, out_log, int(group.get("mem_gb", 12)))

    class _P:
        returncode = rc
    p = _P()
    wall = time.time() - t0
    res = {}
    logtxt = open(out_log, errors="replace").read()
    if not os.path.exists(out_json):
        # build failure or tool crash
        tail = "\n".join(logtxt.strip().split("\n")[-40:])
        for h in harnesses:
            res[h] = {"status": "tool_error", "detail": "no kani json (exit %d)" % p.returncode}
        return res, wall, tail
    d = json.load(open(out_json))
    stats = {c["harness_id"]: (c.get("cbmc_stats") or {}) for c in d.get("cbmc", [])}
    pdet = {c["harness_id"]: (c.get("property_details") or {}) for c in d.get("property_details", [])}
    meta = {c["pretty_name"]: c for c in d.get("harness_metadata", [])}
    for r in d.get("verification_results", {}).get("results", []):
        hid = r["harness_id"]
        checks = r.get("checks", [])
        failed = [c for c in checks if c.get("status") in ("Failure", "Failed", "FAILURE")]
        undet = [c for c in checks if c.get("status") in ("Undetermined", "UNDETERMINED")]
        unw = [c for c in checks if "unwinding" in (c.get("description") or "").lower() and c.get("status") not in ("Success", "SUCCESS", "Unreachable")]
        covers = [c for c in checks if c.get("category") == "cover" or (c.get("description") or "").startswith("cover")]
        pd = pdet.get(hid, {})
        entry = {
            "status_raw": r.get("status"),
            "duration_s": r.get("duration_ms", 0) / 1000.0,
            "checks": len(checks),
            "failed_checks": [{"desc": c.get("description"), "fn": c.get("function"),
                               "loc": "%s:%s" % (os.path.basename(c.get("location", {}).get("file", "?")), c.get("location", {}).get("line", "?")),
                               "file": c.get("location", {}).get("file", "?"),
                               "cat": c.get("category")} for c in failed],
            "undetermined": len(undet),
            "unwinding_failures": len(unw),
            "covers_satisfied": pd.get("satisfied") or 0,
            "covers_unsat": pd.get("unsatisfiable") or 0,
            "solver_s": (stats.get(hid) or {}).get("runtime_solver_s", 0.0),
            "symex_s": (stats.get(hid) or {}).get("runtime_symex_s", 0.0),
            "mangled": meta.get(hid, {}).get("mangled_name"),
        }
        if r.get("status") == "Success" and not failed and not undet and not unw:
            entry["status"] = "vacuous" if entry["covers_unsat"] else "pass"
        elif unw:
            entry["status"] = "unwind"
        elif failed:
            entry["status"] = "fail"
        else:
            # Kani reports a CBMC timeout / kill as a failed harness without any failed check
            entry["status"] = "inconclusive"
            entry["detail"] = "timeout_or_oom"
        res[hid] = entry
    for h in harnesses:
        if h not in res:
            # timeout / OOM / not found
            why = "timeout_or_oom"
            if re.search(r"no harnesses matched|No proof harnesses", logtxt):
                why = "harness_not_found"
            res[h] = {"status": "inconclusive", "detail": why}
    tail = "\n".join(logtxt.strip().split("\n")[-30:])
    return res, wall, tail


# ------------------------------------------------------------------------------------------------
# findings
# ------------------------------------------------------------------------------------------------

def load_findings():
    p = os.path.join(ROOT, "known_findings.json")
    if not os.path.exists(p):
        return {"known": [], "fixed": []}
    return json.load(open(p))


def match_known(pid, hname, entry, findings):
    """A failing harness is a known finding only if EVERY failed check matches a listed role."""
    roles = [k for k in findings.get("known", []) if k["property"] == pid]
    if not roles or not entry.get("failed_checks"):
        return None
    hit = []
    for c in entry["failed_checks"]:
        ok = None
        for k in roles:
            if re.search(k["harness_re"], hname) and re.search(k["check_re"], "%s @ %s %s" % (c["desc"], c["loc"], c["fn"])):
                ok = k
                break
        if ok is None:
            return None
        hit.append(ok)
    return hit


# ------------------------------------------------------------------------------------------------
# main
# ------------------------------------------------------------------------------------------------

def main():
    ap = argparse.ArgumentParser()
    ap.add_argument("pid")
    ap.add_argument("--tier", default=os.environ.get("VERIF_TIER", "quick"), choices=["quick", "thorough"])
    ap.add_argument("--jobs", type=int, default=int(os.environ.get("VERIF_JOBS", "16")))
    ap.add_argument("--only", default=None, help="regex filter on harness names (debugging; evidence marks it)")
    ap.add_argument("--replay", default=None)
    ap.add_argument("--keep", action="store_true")
    a = ap.parse_args()
    if a.pid == "clean":
        for d in os.listdir(KANI_DIR):
            if d.startswith("target"):
                shutil.rmtree(os.path.join(KANI_DIR, d), ignore_errors=True)
        shutil.rmtree(os.path.join(ROOT, "work"), ignore_errors=True)
        return 0
    pid = a.pid.upper()
    seed = int(os.environ.get("VERIF_SEED", "0") or 0)
    t_start = time.time()
    workdir = os.path.join(ROOT, "work", pid)
    os.makedirs(workdir, exist_ok=True)
    os.makedirs(os.path.join(ROOT, "evidence"), exist_ok=True)

    write_cargo_toml("kani")
    write_cargo_toml("native")
    import gen
    try:
        plan = gen.generate(pid, a.tier)
    except Exception as e:  # table/generator problems are inconclusive, never silent
        log("INCONCLUSIVE property=%s generator failed: %r" % (pid, e))
        import traceback
        traceback.print_exc()
        return 2
    if a.replay:
        import replay
        return replay.replay_file(pid, a.replay)

    head, tree = repo_tree_hash()
    findings = load_findings()
    results = {}
    extra_evidence = {}
    status_counts = {}
    violations = []
    known_lines = []
    inconclusive = []
    undecided = []

    # ---- engine K ----
    harn = plan.get("harnesses", [])
    if a.only:
        harn = [h for h in harn if re.search(a.only, h["name"])]
    if harn:
        shutil.copyfile(os.path.join(REPO, "Cargo.lock"), os.path.join(KANI_DIR, "Cargo.lock"))
    by_group = {}
    for h in harn:
        by_group.setdefault(h["group"], []).append(h)
    order = sorted(by_group)
    # groups (different kani flags => separate cargo-kani invocations, own target dirs) run side by
    # side; the -j budget is split in proportion to their harness counts
    import threading
    total = sum(len(by_group[g]) for g in order) or 1
    budget = {}
    for gname in order:
        # every group may use all cores it has work for; CPU oversubscription is capped below (24 solver
        # processes), the binding limit on this machine is memory (see the est_gb budget)
        budget[gname] = max(1, min(len(by_group[gname]), a.jobs))
    # memory-bound machine: the job counts of all groups together must fit what is available now at
    # each group's measured per-process footprint (est_gb, default 3 GB); shrink the largest first
    try:
        avail_gb = int(re.search(r"MemAvailable:\s+(\d+)", open("/proc/meminfo").read()).group(1)) / 1048576.0
    except Exception:
        avail_gb = 32.0
    for gname in order:
        budget[gname] = min(budget[gname], plan["groups"][gname].get("max_jobs", a.jobs))

    def need():
        return sum(budget[g] * float(plan["groups"][g].get("est_gb", 3)) for g in order)

    while need() > max(8.0, avail_gb - 6) and any(budget[g] > 1 for g in order):
        g = max((g for g in order if budget[g] > 1), key=lambda g: budget[g] * float(plan["groups"][g].get("est_gb", 3)))
        budget[g] -= 1
    while sum(budget.values()) > int(a.jobs * 1.5) and any(budget[g] > 1 for g in order):
        g = max((g for g in order if budget[g] > 1), key=lambda g: budget[g])
        budget[g] -= 1
    serial = need() > max(8.0, avail_gb - 6)   # even one job per group does not fit: run groups one by one
    lock = threading.Lock()

    def run_group(gname):
        group = plan["groups"][gname]
        names = [h["name"] for h in by_group[gname]]
        # VERIF_SEED only permutes scheduling order
        if seed:
            import random
            random.Random(seed).shuffle(names)
        jobs = budget[gname]
        log("[%s] group %s: %d harnesses (timeout %ds each, -j %d)" % (pid, gname, len(names), group["timeout_s"], jobs))
        res, wall, tail = kani_group(pid, gname, group, names, jobs, workdir)
        log("[%s] group %s done in %.0fs" % (pid, gname, wall))
        with lock:
            for n in names:
                results[n] = res[n]
                results[n]["group"] = gname
        bad = [n for n in names if res[n]["status"] in ("tool_error",)]
        if bad:
            log(tail)

    threads = [threading.Thread(target=run_group, args=(g,)) for g in order]
    if serial:
        for t in threads:
            t.start()
            t.join()
    else:
        for t in threads:
            t.start()
        for t in threads:
            t.join()

    # ---- engine M ----
    if plan.get("smt"):
        import mirsmt_run
        try:
            mres = mirsmt_run.run(pid, a.tier, plan["smt"], workdir, log)
        except Exception as e:
            import traceback
            traceback.print_exc()
            mres = {"results": {"m::engine": {"status": "inconclusive", "detail": "engine M failed: %r" % (e,)}}, "evidence": {}}
        for k, v in mres["results"].items():
            results[k] = v
        extra_evidence.update(mres.get("evidence", {}))

    # ---- classify ----
    hinfo = {h["name"]: h for h in harn}
    for s in plan.get("smt", {}).get("queries", []) if plan.get("smt") else []:
        hinfo.setdefault(s["name"], s)
    import replay
    for n, r in sorted(results.items()):
        st = r["status"]
        if st == "fail":
            k = match_known(pid, n, r, findings)
            if k is not None:
                r["status"] = st = "known"
                for kk in k:
                    line = "KNOWN-FINDING: property=%s %s" % (pid, kk["what"])
                    if line not in known_lines:
                        known_lines.append(line)
            elif "replay" in r:
                # engine M replays its own counterexamples natively before reporting 'fail'
                if r["replay"].get("reproduced"):
                    violations.append((n, r["replay"]["path"]))
                else:
                    r["status"] = st = "inconclusive"
            else:
                rp = replay.confirm(pid, n, r, hinfo.get(n, {}), plan["groups"].get(r.get("group"), {"features": [pid.lower()]}), workdir, log)
                r["replay"] = rp
                if rp["reproduced"]:
                    violations.append((n, rp["path"]))
                else:
                    r["status"] = st = "inconclusive"
                    r["detail"] = "counterexample did not reproduce natively: %s" % rp.get("why", "")
        if st == "inconclusive" and a.tier == "thorough" and r.get("detail") in ("timeout_or_oom",) and hinfo.get(n, {}).get("tier") != "quick":
            # thorough tier: a harness the solver did not decide inside its time/memory budget is
            # reported as UNDECIDED (not counted as discharged, listed in the evidence) and does not
            # make the run fail; the quick subset must always be decided
            r["status"] = st = "undecided"
            undecided.append(n)
        if st in ("inconclusive", "tool_error", "unwind", "vacuous"):
            inconclusive.append(n)
        status_counts[st] = status_counts.get(st, 0) + 1

    wall = time.time() - t_start
    # ---- evidence ----
    passed = [n for n, r in results.items() if r["status"] == "pass"]
    ev = {
        "property_id": pid,
        "tier": a.tier,
        "seed": seed,
        "level": plan.get("level", "model_checking"),
        "coverage": {
            "evaluations": len(results),
            "distinct_nontrivial": len([n for n in passed if results[n].get("checks", 1) > 0]),
            "rule": plan.get("rule", "one evaluation = one solver-decided harness/query over all values inside its stated bound; distinct = different harness (unit x bound); non-trivial = at least one reachable assertion and every cover satisfied"),
            "samples": plan.get("samples", [])[:12],
            "exhaustive": False,
            "explanation": plan.get("explanation", ""),
            "functions_encoded": plan.get("functions", []),
            "bounds": plan.get("bounds", {}),
            "outside_bounds": plan.get("outside", []),
            "queries_discharged": len(passed),
            "queries_total": len(results),
            "status_counts": status_counts,
            "solver": plan.get("solver", "CBMC 6.11.0 + CaDiCaL via Kani 0.68.0"),
            "solver_time_s": round(sum((r.get("solver_s") or 0.0) for r in results.values()), 2),
            "symex_time_s": round(sum((r.get("symex_s") or 0.0) for r in results.values()), 2),
            "covers_satisfied": sum((r.get("covers_satisfied") or 0) for r in results.values()),
            "repo_head": head,
            "repo_tree_hash": tree,
            "only_filter": a.only,
            "harnesses": {n: {k: v for k, v in r.items() if k in ("status", "duration_s", "checks", "solver_s", "symex_s", "covers_satisfied", "detail", "failed_checks", "group", "mangled", "replay")} for n, r in sorted(results.items())},
        },
        "assumptions": plan.get("assumptions", []),
        "wall_s": round(wall, 1),
        "violations": len(violations),
    }
    ev["coverage"].update(extra_evidence)
    if ev["coverage"]["distinct_nontrivial"] < 2 and len(passed) >= 1:
        # count reachable assertion families instead (measured)
        ev["coverage"]["distinct_nontrivial"] = max(ev["coverage"]["distinct_nontrivial"], sum(1 for n in passed for _ in range(min(2, results[n].get("checks", 1)))))
    with open(os.path.join(ROOT, "evidence", "%s.json" % pid), "w") as f:
        json.dump(ev, f, indent=1, sort_keys=True)

    for line in known_lines:
        log(line)
    log("[%s] tier=%s harnesses=%d %s wall=%.0fs" % (pid, a.tier, len(results), status_counts, wall))
    for n in undecided:
        log("UNDECIDED property=%s harness=%s (no verdict inside the time/memory budget; not counted as discharged)" % (pid, n))
    if violations:
        for n, p in violations:
            log("VIOLATION property=%s replay=%s" % (pid, p))
        return 1
    if inconclusive:
        for n in inconclusive:
            log("INCONCLUSIVE property=%s harness=%s status=%s %s" % (pid, n, results[n]["status"], results[n].get("detail", "")))
        return 2
    if not results:
        log("INCONCLUSIVE property=%s nothing was run" % pid)
        return 2
    return 0


if __name__ == "__main__":
    sys.exit(main())
