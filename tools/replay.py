"""Native replay of solver counterexamples (filled in per property)."""
import os


def confirm(pid, name, result, hinfo, workdir, log):
    return {"reproduced": False, "why": "no replay driver for this harness yet", "path": ""}


def replay_file(pid, path):
    print("replay not implemented for", pid, path)
    return 2
