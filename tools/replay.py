"""Native replay of solver counterexamples.

A FAILED harness is re-run with Kani's concrete playback to obtain the satisfying assignment (the
byte values of every kani::any() in order).  The assignment is then executed NATIVELY: the harness
function itself — i.e. the real rtcm-rs code plus the harness's assertions — is compiled as an
ordinary test (no CBMC) in three profiles: dev, release, release + overflow-checks.  Only a
counterexample whose native run panics (assertion of the harness or panic inside rtcm-rs) in at
least one profile is reported as a violation; anything else is 'inconclusive' (exit 2).
"""
import json
import os
import re
import shutil
import subprocess
import time

ROOT = os.path.dirname(os.path.dirname(os.path.abspath(__file__)))
KANI_DIR = os.path.join(ROOT, "kani")

# cargo-kani playback has no --release; the profile is turned into the release settings through
# cargo's environment overrides of the dev/test profiles (opt-level 3, no debug assertions).
_REL = {"OPT_LEVEL": "3", "DEBUG_ASSERTIONS": "false", "DEBUG": "0"}
PROFILES = [
    ("dev", {}),
    ("release", dict(_REL, OVERFLOW_CHECKS="false")),
    ("release+overflow-checks", dict(_REL, OVERFLOW_CHECKS="true")),
]


def _env(rustflags):
    e = dict(os.environ, CARGO_NET_OFFLINE="true", RUSTFLAGS=rustflags)
    e.pop("RUSTUP_TOOLCHAIN", None)
    return e


def _safe(name):
    return re.sub(r"[^A-Za-z0-9_]+", "_", name)


def extract_tests(pid, name, group, workdir, log, timeout=1800):
    target = os.path.join(KANI_DIR, "target-%s-replay" % pid.lower())
    cmd = ["cargo", "kani", "--features", ",".join(group["features"]), "--target-dir", target,
           "-Z", "concrete-playback", "--concrete-playback=print", "--exact", "--harness", name]
    cmd += group.get("kani_args", [])
    if group.get("cbmc_args_resolved") or group.get("cbmc_args"):
        cmd += ["-Z", "unstable-options", "--cbmc-args"] + (group.get("cbmc_args_resolved") or group["cbmc_args"])
    import guard
    # counterexample extraction (CBMC with full trace generation) runs alone and needs far more memory
    # than the verification run (c05::scan_8: 26 GB): cap 40 GB, the system-wide guard still applies
    logf = os.path.join(workdir, "playback_%s.log" % _safe(name))
    rc = guard.run_guarded(cmd, KANI_DIR, _env("--cfg rtcm_rs_verif"), logf, max(40, int(group.get("mem_gb", 12))), timeout_s=timeout)
    if rc is None:
        return []
    out = open(logf, errors="replace").read()
    tests = []
    for m in re.finditer(r"#\[test\]\s*fn (kani_concrete_playback_\w+)\(\)\s*\{(.*?)\n\}", out, flags=re.S):
        body = m.group(2)
        vals = [[int(x) for x in v.split(",") if x.strip()] for v in re.findall(r"vec!\[([0-9,\s]*)\],", body)]
        tests.append({"test": m.group(1), "vals": vals})
    return tests


def run_native(pid, name, group, tests, workdir, log):
    """Build the scratch replay crate and run the tests in each profile."""
    scratch = os.path.join(workdir, "playback_" + _safe(name))
    if os.path.isdir(scratch):
        shutil.rmtree(scratch)
    os.makedirs(scratch)
    shutil.copytree(os.path.join(KANI_DIR, "src"), os.path.join(scratch, "src"))
    shutil.copytree(os.path.join(KANI_DIR, ".cargo"), os.path.join(scratch, ".cargo"))
    shutil.copyfile(os.path.join(KANI_DIR, "Cargo.toml"), os.path.join(scratch, "Cargo.toml"))
    if os.path.exists(os.path.join(KANI_DIR, "Cargo.lock")):
        shutil.copyfile(os.path.join(KANI_DIR, "Cargo.lock"), os.path.join(scratch, "Cargo.lock"))
    path = "crate::" + name
    code = ["", "#[cfg(test)]", "mod verif_playback {"]
    for t in tests:
        code.append("    #[test]")
        code.append("    fn %s() {" % t["test"])
        code.append("        let concrete_vals: Vec<Vec<u8>> = vec![%s];" % ", ".join("vec![%s]" % ", ".join(str(b) for b in v) for v in t["vals"]))
        code.append("        kani::concrete_playback_run(concrete_vals, %s);" % path)
        code.append("    }")
    code.append("}")
    with open(os.path.join(scratch, "src", "lib.rs"), "a") as f:
        f.write("\n".join(code) + "\n")
    outcome = {}
    target = os.path.join(KANI_DIR, "target-playback")
    for pname, prof in PROFILES:
        cmd = ["cargo", "kani", "playback", "-Z", "concrete-playback", "--features", ",".join(group["features"]),
               "--", "verif_playback", "--test-threads", "1"]
        e = _env("--cfg rtcm_rs_verif")
        for k, v in prof.items():
            e["CARGO_PROFILE_DEV_" + k] = v
            e["CARGO_PROFILE_TEST_" + k] = v
        e["CARGO_TARGET_DIR"] = target + "-" + re.sub(r"[^a-z]", "", pname)
        p = subprocess.run(cmd, cwd=scratch, env=e, capture_output=True, text=True)
        out = p.stdout + p.stderr
        failed = re.findall(r"test verif_playback::(\w+) \.\.\. FAILED", out)
        passed = re.findall(r"test verif_playback::(\w+) \.\.\. ok", out)
        panics = re.findall(r"panicked at ([^\n]*)\n([^\n]*)", out)
        outcome[pname] = {"failed": failed, "passed": passed, "panics": [" ".join(x)[:300] for x in panics][:6],
                          "ran": bool(failed or passed), "exit": p.returncode}
        if not (failed or passed):
            outcome[pname]["tail"] = out[-1500:]
    return scratch, outcome


def confirm(pid, name, result, hinfo, group, workdir, log):
    t0 = time.time()
    tests = extract_tests(pid, name, group, workdir, log)
    if not tests:
        return {"reproduced": False, "why": "no concrete playback assignment obtained", "path": ""}
    scratch, outcome = run_native(pid, name, group, tests, workdir, log)
    reproduced = any(o["failed"] for o in outcome.values())
    rdir = os.path.join(ROOT, "replays", pid)
    os.makedirs(rdir, exist_ok=True)
    rpath = os.path.join(rdir, _safe(name) + ".json")
    rec = {"property": pid, "harness": name, "features": group["features"], "tests": tests,
           "native_outcome": outcome, "failed_checks": result.get("failed_checks"),
           "how": "cargo kani playback of the harness function on the recorded kani::any() values; profiles dev / release / release + -C overflow-checks=on",
           "replay_cmd": "./check %s --replay %s" % (pid, rpath)}
    with open(rpath, "w") as f:
        f.write(json.dumps(rec, indent=1).replace("[\n     ", "[").replace("\n    ]", "]"))
    if not os.environ.get("VERIF_KEEP_SCRATCH"):
        shutil.rmtree(scratch, ignore_errors=True)
    why = "" if reproduced else "native run of the recorded assignment did not panic in any profile: %s" % json.dumps({k: (v["passed"], v.get("tail", "")[-300:]) for k, v in outcome.items()})
    log("[%s] replay %s: reproduced=%s (%.0fs) %s" % (pid, name, reproduced, time.time() - t0,
                                                     {k: ("FAILED" if v["failed"] else "ok" if v["passed"] else "not run") for k, v in outcome.items()}))
    return {"reproduced": reproduced, "why": why, "path": rpath,
            "profiles": {k: ("panics" if v["failed"] else "ok" if v["passed"] else "not run") for k, v in outcome.items()},
            "panics": sum((v["panics"] for v in outcome.values()), [])[:4]}


def replay_file(pid, path):
    rec = json.load(open(path))
    workdir = os.path.join(ROOT, "work", pid)
    os.makedirs(workdir, exist_ok=True)
    group = {"features": rec["features"]}
    scratch, outcome = run_native(pid, rec["harness"], group, rec["tests"], workdir, print)
    shutil.rmtree(scratch, ignore_errors=True)
    reproduced = any(o["failed"] for o in outcome.values())
    for k, v in outcome.items():
        print("profile %-24s %s %s" % (k, "PANICS" if v["failed"] else "ok" if v["passed"] else "not run", v["panics"][:2]))
    if reproduced:
        print("VIOLATION property=%s replay=%s" % (pid, path))
        return 1
    return 0
