#!/usr/bin/env python3
"""Apply each seeded change to /repo, run the named check, undo. Writes seeded/results.json.
usage: tools/seedtest.py [id ...]"""
import json, os, subprocess, sys, time
ROOT = os.path.dirname(os.path.dirname(os.path.abspath(__file__)))
PLAN = [
    # (seed dir, property check, tier, --only regex or None)
    ("C03_frame_min_len_le6", "C03", "quick", None),
    ("C18_gal_5I_at_21", "C18", "quick", None),
    ("C11_df101_no_rounding", "C11", "quick", None),
    ("C08_df196_7_no_rounding", "C08", "quick", None),
    ("C13_msgnum_from_slice_len_again", "C13", "quick", None),
    ("revert_msgnum_from_slice_len", "C13", "quick", None),
    ("C14_msgnum_needs_3_bytes", "C14", "quick", "long"),
    ("C07_parse_overflow_check_rounds_down", "C07", "quick", "overflow"),
    ("revert_signmag_min_overflow", "C09", "quick", "field_df133"),
    ("revert_i8_bias_overflow", "C09", "quick", "field_df040|field_df419"),
    ("C04_crc_compare_23_bits", "C04", "quick", "single_8"),
    ("C06_scanner_skips_last_2_bytes", "C06", "quick", "scan_8"),
    ("C10_msm_empty_sat_list_shortcut", "C10", "quick", "err_gps_sat_list_empty"),
    ("C09_msm_cell_sat0_accepted", "C10", "quick", "err_gps_cell_sat_range"),
    ("revert_msm_encode_65_cells", "C10", "quick", "err_gps_cells65"),
    ("revert_msm_decode_cellmask_gt64", "C02", "quick", "msg1074_9x8"),
    ("C15_desc_string_len_clamped", "C15", "quick", "msg1007_over0_32"),
    ("C20_latin1_ff_mapped_to_a4", "C20", "quick", "desc_4"),
    ("revert_serde_latin1_truncation", "C20", "quick", "desc_4"),
    ("C12_has_run_set_only_on_success", "C12", "quick", "inv_fail"),
    ("C16_ssr1059_sat0_block_dropped", "C16", "thorough", "gps1059::most_satellites"),
    ("revert_ssr1059_sat_count_wrap", "C16", "thorough", "gps1059::all_satellites"),
    ("C02_ssr1059_capacity_guard_off_by_one", "C16", "thorough", "capacity_1059"),
    ("revert_ssr_bias_decode_capacity", "C16", "thorough", "capacity_1059"),
    ("C17_text1029_128_chars_accepted", "C17", "thorough", "encode_limits"),
]
want = set(sys.argv[1:])
resf = os.path.join(ROOT, "seeded", "results.json")
res = json.load(open(resf)) if os.path.exists(resf) else {}
for seed, pid, tier, only in PLAN:
    if want and seed not in want:
        continue
    patch = os.path.join(ROOT, "seeded", seed, "patch.diff")
    assert subprocess.run(["git", "-C", os.environ.get("SEED_REPO", "/repo"), "status", "--porcelain", "--untracked-files=no"], capture_output=True, text=True).stdout.strip() == "", "/repo not clean"
    subprocess.run(["git", "-C", os.environ.get("SEED_REPO", "/repo"), "apply", patch], check=True)
    t0 = time.time()
    cmd = ["./check", pid, "--tier", tier] + (["--only", only] if only else [])
    try:
        p = subprocess.run(cmd, cwd=ROOT, capture_output=True, text=True, timeout=3300)
        out, rc = p.stdout + p.stderr, p.returncode
    except subprocess.TimeoutExpired as e:
        out, rc = (e.stdout or b"").decode(errors="replace") if isinstance(e.stdout, bytes) else (e.stdout or ""), "timeout"
    finally:
        subprocess.run(["git", "-C", os.environ.get("SEED_REPO", "/repo"), "checkout", "--", "."], check=True)
    viol = [l for l in out.split("\n") if l.startswith("VIOLATION")]
    inc = [l for l in out.split("\n") if l.startswith("INCONCLUSIVE")]
    res[seed] = {"check": " ".join(cmd), "exit": rc, "wall_s": round(time.time() - t0), "violation_lines": viol[:3], "inconclusive_lines": inc[:3],
                 "detected": rc == 1 and bool(viol), "tail": out.strip().split("\n")[-4:] if not viol else []}
    json.dump(res, open(resf, "w"), indent=1)
    print(seed, res[seed]["detected"], rc, res[seed]["wall_s"], flush=True)
# evidence files were rewritten by the mutated runs: they must be regenerated on the clean tree
