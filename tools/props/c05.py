"""C05 — scanner == reference scanner."""


def generate(T, tier):
    hs = [
        {"name": "c05::scan_7", "group": "main", "tier": "quick", "bounds": "all buffers <= 7 bytes, real CRC verdict"},
        {"name": "c05::scan_8", "group": "main", "tier": "quick", "bounds": "all buffers <= 8 bytes, real CRC verdict"},
        {"name": "c05::scan_10", "group": "main", "tier": "thorough", "bounds": "all buffers <= 10 bytes, real CRC verdict"},
        {"name": "c05::iter_8", "group": "main", "tier": "thorough", "bounds": "MsgFrameIter on all buffers <= 8 bytes, 2 next() calls"},
        {"name": "c05::scan_abs_24", "group": "stub", "tier": "quick", "bounds": "all buffers <= 24 bytes, every declared length, CRC stubbed by a per-call symbolic sequence"},
        {"name": "c05::scan_abs_48", "group": "stub", "tier": "thorough", "bounds": "all buffers <= 48 bytes, CRC stubbed"},
        {"name": "c05::iter_abs_18", "group": "stub", "tier": "thorough", "bounds": "MsgFrameIter on all buffers <= 18 bytes (up to 3 frames), 4 next() calls, CRC stubbed"},
    ]
    return {
        "harnesses": hs,
        "groups": {"main": {"features": ["c05"], "timeout_s": 2400},
                   "stub": {"features": ["c05"], "timeout_s": 2400, "kani_args": ["-Z", "stubbing"]}},
        "level": "model_checking",
        "functions": ["rtcm_rs::next_msg_frame", "rtcm_rs::MsgFrameIter::{new,consumed}", "<&mut MsgFrameIter as Iterator>::next", "rtcm_rs::MessageFrame::new"],
        "bounds": {"real_crc": "buffers <= 8 (quick) / 10 (thorough) bytes", "stubbed_crc": "buffers <= 24 (quick) / 48 (thorough) bytes, every declared L 0..=1023",
                   "iterator": "floor(N/6)+1 next() calls unrolled; last one proved to return None"},
        "outside": ["buffers longer than 48 bytes (scanner state is one index; argument only)"],
        "assumptions": ["scan_abs/iter_abs: CRCu32::digest is a no-op and the k-th get_crc returns SEQ[k] (symbolic table); the reference side consumes the same table entry for the k-th complete candidate it examines",
                        "verdict oracle in scan_N is the real MessageFrame::new, whose equivalence with the bitwise CRC-24Q predicate is C03's result"],
        "samples": [{"harness": "c05::scan_8", "symbolic": {"buf": "[u8;8]", "len": "0..=8"},
                     "asserts": "next_msg_frame(&buf[..len]) == ref_scan: same consumed, same presence, frame bytes == buffer bytes ending at consumed, consumed <= len"}],
        "explanation": "Bounded model checking of the real scanner against a reference scanner written from the property text.",
    }
