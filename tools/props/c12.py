"""C12 — builder output independent of history (engine K on MessageBuilder with the raw-state hooks)."""
import gen
import msggen

STUBS = "#[kani::stub(crc_any::CRCu32::digest, crate::util::stub_digest)]\n#[kani::stub(crc_any::CRCu32::get_crc, crate::util::stub_get_crc)]\n"


def generate(T, tier):
    G = msggen.MsgGen(T)
    code = []
    hs = [{"name": "c12::clear_%s" % k, "group": "clear", "tier": "quick" if k in ("unsupported", "empty") else "thorough",
           "bounds": "L1: every 1029-byte builder state (data[0]==0xD3, has_run) x %s: state after the call == fresh state" % d}
          for k, d in (("empty", "Message::Empty"), ("corrupt", "Message::Corrupt"), ("unsupported", "MsgNotSupported(any u16)"))]
    hs.append({"name": "c12::fresh_state", "group": "clear", "tier": "quick", "bounds": "MessageBuilder::new() is [0xD3, 0, 0, ...] with the used-flag down"})
    byvar = {m["module"]: m for m in T.messages}
    # smallest message that can fail part-way (contains a biased field => OutOfRange after some fields were written)
    cands = []
    for m in T.messages:
        mod = m["module"]
        if G.is_msm(mod) or G.has_var(mod):
            continue
        fr = T.frags[mod]
        names = [s for _, s, _ in fr["fields"]]
        if any(s in T.field and T.field[s]["bias_src"] for s in names[2:]):
            cands.append((len(names), mod))
    failing = sorted(cands)[0][1] if cands else None
    plan = [("msg1005", 0, "thorough"), ("msg1230", 2, "thorough"), ("msg1008", 2, "thorough"), ("msg1004", 1, "thorough")]
    if failing:
        plan.append((failing, 0, "thorough"))
    for mod, n, t in plan:
        m = byvar[mod]
        cap = G.max_cap(mod)
        expr = G.any_expr(mod, n, "cand")
        code.append("""#[kani::proof]
#[kani::unwind(1031)]
%spub fn window_%s() {
    // dirty state: zero except a symbolic 96-byte window right after the preamble (header, body and
    // checksum of a previous small frame / stale tail of a longer one)
    let mut st = fresh_bytes();
    let w: [u8; 96] = kani::any();
    let mut i = 0;
    while i < 96 {
        st[1 + i] = w[i];
        i += 1;
    }
    let m = %s;
    let msg = Message::%s(m);
    same_as_fresh(st, true, &msg);
}
""" % (STUBS, mod, expr, m["variant"]))
        hs.append({"name": "c12::window_%s" % mod, "group": "stub", "tier": t,
                   "bounds": "%s (lists at %d): dirty 96-byte window x symbolic message: frame and final state == fresh builder (covers Ok and, where reachable, Err part-way)" % (mod, n)})
    if failing:
        m = byvar[failing]
        code.append("""#[kani::proof]
#[kani::unwind(1031)]
%spub fn inv_partway() {
    // a FRESH builder whose first build may fail after part of the body was written: afterwards the
    // builder must be in a state from which the next call starts clean, i.e. the used-flag is up or
    // the buffer is still exactly the fresh one (the precondition of L1 / L2 for the next call)
    let m = %s;
    let msg = Message::%s(m);
    unsafe {
        CRC_VAL = 0;
    }
    let mut b = MessageBuilder::new();
    let failed = b.build_message(&msg).is_err();
    let (d, has_run) = b.verif_raw();
    assert!(d[0] == 0xD3);
    if failed {
        let mut clean = true;
        let mut i = 1;
        while i < 1029 {
            if d[i] != 0 {
                clean = false;
            }
            i += 1;
        }
        assert!(has_run || clean);
        kani::cover!(!clean);
    } else {
        assert!(has_run);
    }
}
""" % (STUBS, G.any_expr(failing, 0, "cand"), m["variant"]))
        hs.append({"name": "c12::inv_partway", "group": "stub", "tier": "thorough",
                   "bounds": "fresh builder, symbolic %s (can fail with OutOfRange after earlier fields were written): afterwards has_run is set or the buffer is still fresh" % failing})
    m = byvar["msg1005"]
    code.append("""#[kani::proof]
#[kani::unwind(1031)]
%spub fn fresh_eq() {
    // L2: fresh bytes, flag up: the second wipe of a clean buffer changes nothing
    let m = %s;
    let msg = Message::%s(m);
    same_as_fresh(fresh_bytes(), true, &msg);
}
""" % (STUBS, G.any_expr("msg1005", 0, "cand"), m["variant"]))
    hs.append({"name": "c12::fresh_eq", "group": "stub", "tier": "thorough", "bounds": "L2: fresh state with has_run = true vs MessageBuilder::new(), symbolic Msg1005"})
    hs.append({"name": "c12::inv_fail_after_write", "group": "stub", "tier": "thorough",
               "bounds": "fresh builder + a concrete Msg1230 refused after the first fields were written: used-flag up (or buffer untouched) afterwards"})
    hs.append({"name": "c12::inv_fail_early", "group": "early", "tier": "quick",
               "bounds": "fresh builder + a concrete Msg1020 refused at its second field (df040 below its bias) after the number and satellite id were written: used-flag up (or buffer untouched) afterwards"})
    gen.write_gen("c12_list.rs", "\n".join(code))
    return {
        "harnesses": hs,
        # "clear": the L1 lemma harnesses build no list type, so they need no per-loop bound and skip the
        # codegen-only + show-loops pre-pass (the global unwind 1031 covers every loop they reach)
        "groups": {"clear": {"features": ["c12"], "est_gb": 8, "timeout_s": 3000, "max_jobs": 5, "kani_args": ["-Z", "stubbing"]},
                   "early": {"features": ["c12"], "est_gb": 8, "timeout_s": 3000, "max_jobs": 5, "kani_args": ["-Z", "stubbing"]},
                   "stub": {"features": ["c12"], "est_gb": 8, "timeout_s": 3000, "max_jobs": 5, "unwindset": [["try_from_fn_erased", 392]], "kani_args": ["-Z", "stubbing"]}},
        "level": "model_checking",
        "functions": ["rtcm_rs::MessageBuilder::{new,build_message,clear_data}", "hooks: MessageBuilder::{verif_from_raw,verif_raw}"],
        "bounds": {"L1": "complete 1029-byte state", "typed": "messages %s with small lists; dirty window of 96 bytes" % [p[0] for p in plan],
                   "induction": "every state reachable after any call satisfies L1's precondition (same_as_fresh asserts has_run and compares data[0]); L1 + L2 give history independence for any number of calls (argument)"},
        "outside": ["typed evidence for large messages (MSM, long lists): the wipe precedes and does not look at the message (L1 is for the full state)"],
        "assumptions": ["CRC arithmetic stubbed (function of the digested slice): equal buffers get equal checksums"],
        "samples": [{"harness": "c12::clear_unsupported", "symbolic": {"data": "[u8;1029] any with data[0]=0xD3", "message": "Empty | Corrupt | MsgNotSupported(any)"},
                     "asserts": "Err(EncodingNotSupported); state == [0xD3, 0, 0, ...] with has_run"}],
        "explanation": "One inductive step from an arbitrary builder state instead of exploring call histories.",
    }
