"""C04 — corrupted frames are never delivered."""


def generate(T, tier):
    hs = []
    for n, t in ((8, "quick"), (10, "quick"), (12, "thorough")):
        for cls in ("single", "double", "burst"):
            hs.append({"name": "c04::%s_%d" % (cls, n), "group": "main", "tier": t,
                       "bounds": "all valid %d-byte frames (L=%d) x all %s error patterns in reserved bits/payload/checksum" % (n, n - 6, {"single": "1-bit", "double": "2-bit", "burst": "<=24-bit burst"}[cls])})
    hs.append({"name": "c04::lemmas", "group": "main", "tier": "quick", "bounds": "all 2^24 CRC states x all bytes: linearity, parity, zero-byte, augmentation"})
    hs.append({"name": "c04::lemma_burst", "group": "main", "tier": "quick", "bounds": "all non-empty bursts <= 24 bits at all 8 alignments from state 0"})
    hs.append({"name": "c04::double_long", "group": "main", "tier": "thorough", "bounds": "two single-bit errors in different bytes at every byte distance 0..=1028, all 8x8 bit positions"})
    return {
        "harnesses": hs,
        "groups": {"main": {"features": ["c04"], "timeout_s": 2400}},
        "level": "model_checking",
        "functions": ["rtcm_rs::MessageFrame::new", "rtcm_rs::next_msg_frame", "crc_any::CRC::{crc24lte_a,digest,get_crc}"],
        "bounds": {"direct": "frames of 8 and 10 bytes (quick), 12 (thorough); error classes single / double / burst<=24", "lemmas": "complete CRC state space", "double_long": "distance up to 1028 zero bytes"},
        "outside": ["odd-weight errors and bursts/single bits in frames longer than 12 bytes are covered by the step lemmas plus the written induction argument (DESIGN.md C04), not by one solver query",
                    "'the scanner does not deliver it' for long frames follows from C05 (scanner delivers exactly what MessageFrame::new accepts)"],
        "assumptions": ["error mask leaves preamble and the 10-bit length untouched (as the property states: reserved bits, payload, checksum)"],
        "samples": [{"harness": "c04::double_10", "symbolic": {"f": "[u8;10] with MessageFrame::new(f) Ok, L=4", "a,b": "bit positions"},
                     "asserts": "MessageFrame::new(f ^ e) == Err(NotValid); next_msg_frame(f ^ e) delivers no frame starting at byte 0"}],
        "explanation": "Direct bounded model checking on short frames plus solver-proved CRC step lemmas over the complete register state space.",
    }
