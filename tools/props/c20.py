"""C20 — serde round trip (engine K with an in-harness token-tape serde back end)."""


def generate(T, tier):
    hs = [
        {"name": "c20::desc_4", "group": "stub", "tier": "quick", "bounds": "Df88591String<4>: every content (all byte values, every length 0..=4) through Serialize -> tape -> Deserialize"},
        {"name": "c20::desc_7", "group": "stub", "tier": "thorough", "bounds": "Df88591String<7>: every content"},
        {"name": "c20::utf8_5", "group": "stub", "tier": "quick", "bounds": "ArrayString<5> built from <= 4 chars (any scalar values), including exactly at capacity"},
        {"name": "c20::msg1230", "group": "stub", "tier": "thorough", "bounds": "derived impl of Msg1230T: DataVec<_,4> with 0..=4 entries, SigId(any u8, any char), any non-NaN f32"},
        {"name": "c20::msg1006", "group": "stub", "tier": "thorough", "bounds": "derived impl of Msg1006T: all integer fields, four non-NaN f64"},
    ]
    return {
        "harnesses": hs,
        "groups": {"stub": {"features": ["c20"], "est_gb": 12, "mem_gb": 24, "max_jobs": 3, "timeout_s": 2400, "kani_args": ["-Z", "stubbing"]}},
        "level": "model_checking",
        "functions": ["<Df88591String<N> as Serialize>::serialize / Deserialize::deserialize (hand written)", "<ArrayString<N> as Serialize/Deserialize> (hand written)",
                      "derived impls of Msg1230T, Msg1230CodePhaseBias, GloSigId, DataVec (tinyvec ArrayVec), Msg1006T"],
        "bounds": {"strings": "Df88591String N in {4 (quick), 7}; ArrayString<5>", "messages": "two derived message types", "backend": "in-harness token tape implementing serde::Serializer/Deserializer (self-describing, strings copied)"},
        "outside": ["the other 106 message types (serde_derive output over the same building blocks)", "real data formats (JSON etc.), heap-backed value trees", "Df88591String<31>/ArrayString<255> at their own capacities (generic in N)"],
        "assumptions": ["core::str::from_utf8 stubbed by the reference validator", "floats not NaN (the property's quantifier)"],
        "samples": [{"harness": "c20::desc_4", "symbolic": {"bytes": "[u8;4] any", "len": "0..=4"}, "asserts": "deserialize(serialize(s)) == s"}],
        "explanation": "The hand-written impls are symbolically executed end to end against a token tape; equality of the value before and after is the property.",
    }
