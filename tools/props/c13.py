"""C13 — frame interpretation independent of what follows."""


def generate(T, tier):
    hs = [
        {"name": "c13::short_10", "group": "main", "tier": "quick", "bounds": "all 10-byte buffers x all slice-length pairs len1 <= len2 <= 10"},
        {"name": "c13::short_12", "group": "main", "tier": "thorough", "bounds": "all 12-byte buffers x all slice-length pairs"},
        {"name": "c03::long", "group": "stub", "tier": "quick", "bounds": "1040-byte buffer, every L 0..=1023, every slice length up to 1040 (i.e. every suffix length), CRC arithmetic stubbed"},
    ]
    return {
        "harnesses": hs,
        "groups": {"main": {"features": ["c13"], "timeout_s": 1800},
                   "stub": {"features": ["c03"], "timeout_s": 900, "kani_args": ["-Z", "stubbing"]}},
        "level": "model_checking",
        "functions": ["rtcm_rs::MessageFrame::new", "MessageFrame::{message_number,data,frame_data,data_len,frame_len,crc}"],
        "bounds": {"short": "buffers of 10 (quick) / 12 (thorough) bytes: frame + every suffix that fits", "long": "every L with stubbed CRC; suffix = any bytes up to 1040 total"},
        "outside": ["get_message() equality is not asserted directly: Message::from_message_frame reads only message_number() and data() (checked structurally by C14's dispatch analysis); asserting it through the 108-arm dispatch with a symbolic number exhausts memory (DESIGN.md 2.1)"],
        "assumptions": ["c03::long: CRC stub contract (function of the digested slice)"],
        "samples": [{"harness": "c13::short_10", "symbolic": {"buf": "[u8;10]", "len1<=len2<=10": "any"},
                     "asserts": "new(&buf[..len1]) Ok => new(&buf[..len2]) Ok with identical frame_len/data_len/crc/data/frame_data/message_number; number == Some(first 12 payload bits) iff L>=2"}],
        "explanation": "Bounded model checking of MessageFrame::new on nested slices of the same buffer.",
    }
