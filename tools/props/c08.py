"""C08 — every data field lossless on its grid, one absent pattern. K (bit-precise) + M (all fields)."""
import gen


def k_feasible(f):
    if not f["is_float"]:
        return True
    if f["res_pow2"] and not f["bias_src"]:
        return True
    if f["dt"] == "f32" and f["len"] <= 16:
        return True
    return False


def shape(f):
    return (f["dt"], f["it"], f["len"], f["res_src"], f["bias_src"], f["inv_src"], f["round"])


def generate(T, tier):
    lines = []
    hs = []
    seen = set()
    for f in T.fields:
        if not k_feasible(f):
            continue
        inv = "None" if f["inv"] is None else "Some(%du64)" % (f["inv"] & ((1 << f["len"]) - 1))
        lines.append("#[kani::proof]\n#[kani::unwind(12)]\npub fn %s() {\n    use rtcm_rs::verif_hooks::dfs::%s as d;\n    roundtrip::<d::DataType>(%d, %s, %s, d::encode, d::decode);\n}" %
                     (f["id"], f["id"], f["len"], inv, "true" if f["kind"] == "sm" else "false"))
        first = shape(f) not in seen
        seen.add(shape(f))
        hs.append({"name": "c08::%s" % f["id"], "group": "main", "tier": "quick" if first else "thorough",
                   "bounds": "all 2^%d patterns of %s (%s via %s, res %s, bias %s, inv %s)" % (f["len"], f["id"], f["dt"], f["it"], f["res_src"], f["bias_src"], f["inv_src"])})
    gen.write_gen("c08_list.rs", "\n".join(lines) + "\n")
    allf = [f["id"] for f in T.fields]
    n_k = len(hs)
    return {
        "harnesses": hs,
        "groups": {"main": {"features": ["c08"], "timeout_s": 900}},
        "smt": {"mode": "roundtrip", "fields": allf, "timeout_s": 60 if tier == "quick" else 300,
                "queries": [{"name": "m::roundtrip::%s" % f} for f in allf]},
        "level": "model_checking",
        "solver": "K: CBMC 6.11 + CaDiCaL via Kani 0.68 (bit-precise); M: z3 4.8.12 + cvc5 1.0 on SMT-LIB2 generated from rustc MIR",
        "functions": ["rtcm_rs::df::dfs::<id>::{encode,decode} for all %d df! fields" % len(allf)],
        "bounds": {"K": "%d fields bit-precisely over all 2^len patterns (integer fields, power-of-two resolutions, f32 decimal <= 16 bit); quick = one field per distinct (dt,it,len,res,bias,inv) shape" % n_k,
                   "M": "all %d fields over all 2^len patterns (len up to 38) in the standard model of floating point; includes the %d wide decimal fields K cannot bit-blast" % (len(allf), len(allf) - n_k)},
        "outside": ["hand-written bias codecs of 1059/1065/1230 (C16 harnesses cover their pattern round trip)"],
        "assumptions": ["M: float operations over-approximated by the standard model (sound for unsat); bit channel contract from C07; translator validated against the real code in the same run",
                        "K: pattern placed at bit offset 0 of a 9-byte buffer (alignment independence is C07)"],
        "samples": [{"harness": "c08::df011 (if K-feasible) / m::roundtrip::df011", "symbolic": {"p": "any 24-bit pattern"},
                     "asserts": "decode(p) is None iff p == 0xFFFFFF; Some(v) finite; encode(decode(p)) writes p"}],
        "explanation": "Per-field pattern round trip decided for ALL patterns: bit-precisely by CBMC where the float circuit is tractable, and by SMT over a sound real-arithmetic abstraction of the MIR for every field.",
    }
