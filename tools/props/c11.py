"""C11 — quantisation picks the nearest representable value (engine M over all float fields)."""


def generate(T, tier):
    flds = [f["id"] for f in T.fields if f["is_float"]]
    return {
        "harnesses": [],
        "groups": {},
        "smt": {"mode": "quantise", "fields": flds, "timeout_s": 60 if tier == "quick" else 300,
                "queries": [{"name": "m::quantise::%s" % f} for f in flds]},
        "level": "model_checking",
        "solver": "z3 4.8.12 + cvc5 1.0 on SMT-LIB2 generated from rustc MIR (engine M)",
        "functions": ["rtcm_rs::df::dfs::<id>::encode and ::decode for all %d float-typed df! fields (MIR of the current tree)" % len(flds)],
        "bounds": {"inputs": "all REAL x with D(k) <= x <= D(k+1) for adjacent representable integers k,k+1 of the field (whole range, absent pattern excluded)",
                   "float_model": "standard model of IEEE-754 round-to-nearest: fl(a op b) = (a op b)(1+d)+e, |d|<=2^-24 (f32) / 2^-53 (f64), |e|<= smallest subnormal; int->float exact when the integer fits the significand; float->int saturating truncation",
                   "claims": "(i) written integer in {k,k+1}; (ii) |decode(n)-x| <= res/2 + 8u(|x|+|bias|+res); (iii) no wrap (implied by i); (iv) x1<=x2 => n1<=n2 using monotonicity of IEEE rounding on corresponding operations"},
        "outside": ["NaN and infinities (C09)", "the three hand-written bias quantisers of 1059/1065/1230 are covered bit-precisely by C16/C08 harnesses, not by this abstraction"],
        "assumptions": ["bit channel contract parse(put(v)) proved by C07", "float operations over-approximated by the standard model (sound: unsat carries over to IEEE semantics)", "translator validated against the real functions on sampled vectors in this run"],
        "samples": [{"query": "m::quantise::df011 enc1_neighbour", "symbolic": {"k": "Int in [0, 2^24-3]", "x": "Real in [D(k), D(k+1)]", "d_i": "rounding errors"},
                     "asserts": "unsat( n not in {k,k+1} or float overflow )"}],
        "explanation": "Symbolic execution of the MIR of each field codec into linear mixed integer/real arithmetic; negated claim checked unsat by two solvers; any sat model is concretised to floats and replayed on the real function.",
    }
