"""C02 — decoding is total (engine K on every msgNNNN::decode with symbolic payloads)."""
import gen
import msggen

QUICK = ["msg1005", "msg1006", "msg1004", "msg1012", "msg1013", "msg1017", "msg1019", "msg1020", "msg1023", "msg1033", "msg1029",
         "msg1057", "msg1059", "msg1065", "msg1230", "msg1042", "msg1300", "msg1071", "msg1074", "msg1077", "msg1087", "msg1127"]

# MSM mask shapes: (satellite ids, signal-mask bit positions 1..32)
# (satellite ids, signal-mask bit positions, cell mask as a bit string or None when the cell count is refused)
MSM_SHAPES = {
    "empty": ([], [], ""),
    "1x1": ([5], [2], "1"),
    "2x2": ([3, 40], [2, 3], "1101"),
    "2x2full": ([3, 40], [2, 3], "1111"),
    "3x2": ([1, 2, 64], [2, 8], "100111"),
    "zero": ([3, 40], [2, 3], "0000"),
    "8x8": ([1, 2, 3, 4, 5, 6, 7, 8], [2, 3, 4, 8, 9, 10, 15, 16], "1" + "0" * 62 + "1"),
    "9x8": ([1, 2, 3, 4, 5, 6, 7, 8, 9], [2, 3, 4, 8, 9, 10, 15, 16], None),
}


def concrete_bytes(patches, nbytes):
    """Rust statements that make every byte touched by a patch a CONSTANT (count/mask bits as asked,
    the neighbouring bits of those bytes zero). A bit-wise set_bits on symbolic bytes leaves the
    extracted field a symbolic expression for CBMC's constant propagation, so loop counts would not
    fold; whole-byte constants do. The few neighbouring bits that become concrete are a stated bound."""
    vals = {}
    for off, w, val in patches:
        for i in range(w):
            pos = off + i
            if pos >= 8 * nbytes:
                continue
            b = pos // 8
            vals.setdefault(b, 0)
            if (val >> (w - 1 - i)) & 1:
                vals[b] |= 0x80 >> (pos % 8)
    return " ".join("payload[%d] = 0x%02x;" % (b, v) for b, v in sorted(vals.items()))


def msm_header_bits(G, mod):
    fr = G.T.frags[mod]
    tot = 0
    for name, sub, _ in fr["fields"]:
        if G.T.classify(sub) == "msm_data_seg_frag":
            return tot, sub
        tot += G.width(sub, 0)
    raise Exception("no data segment in %s" % mod)


def generate(T, tier):
    G = msggen.MsgGen(T)
    code = ["use crate::util::*;", "use rtcm_rs::verif_hooks::codec;", ""]
    hs = []
    for m in T.messages:
        mod = m["module"]
        q = mod in QUICK
        if G.is_msm(mod):
            hdr, seg = msm_header_bits(G, mod)
            segfr = T.frags[seg]
            satfr, sigfr = T.frags[segfr["sat_id"]], T.frags[segfr["sig_id"]]
            sat_w = sum(T.field[s]["len"] for _, s, _ in satfr["fields"])
            sig_w = sum(T.field[s]["len"] for _, s, _ in sigfr["fields"])
            for sname, (sats, sigs, cm) in MSM_SHAPES.items():
                nsat, nsig = len(sats), len(sigs)
                ncell_max = nsat * nsig
                if sname in ("8x8", "3x2", "2x2full", "1x1") and tier == "quick":
                    continue
                ncells = cm.count("1") if cm is not None else 0
                bits = 12 + hdr + 64 + 32 + (ncell_max if cm is not None else 0) + nsat * sat_w + ncells * sig_w
                B = (bits + 7) // 8 + 1
                satmask = 0
                for s in sats:
                    satmask |= 1 << (64 - s)
                sigmask = 0
                for s in sigs:
                    sigmask |= 1 << (32 - s)
                mask_patches = [(12 + hdr, 64, satmask), (12 + hdr + 64, 32, sigmask)]
                if cm:
                    mask_patches.append((12 + hdr + 96, len(cm), int(cm, 2)))
                fin = []
                G.finite_checks(mod, "m", 0, fin)
                name = "%s_%s" % (mod, sname)
                code.append("""#[kani::proof]
#[kani::unwind(66)]
pub fn %s() {
    let mut payload: [u8; %d] = kani::any();
    %s
    let mut par = Parser::new(&payload, 12);
    match codec::%s::decode(&mut par) {
        Ok(m) => {
            %s
            assert!(m == m);
            kani::cover!(true);
        }
        Err(_) => {}
    }
}
""" % (name, B, concrete_bytes(mask_patches, B), mod, "\n            ".join(fin)))
                hs.append({"name": "c02::%s" % name, "group": "msm", "tier": "quick" if (mod in ("msg1074", "msg1077", "msg1127", "msg1087") and sname in ("9x8",)) else "thorough",
                           "bounds": "%s: every %d-byte payload whose satellite, signal and cell masks are the concrete shape %s (%s), all row data symbolic" % (mod, B, sname, cm if cm is not None else "72 cells: refused")})
            continue
        fixed = not G.has_var(mod)
        cap = G.max_cap(mod)
        unw = max(12, min(cap, 64) + 2)
        stub = "#[kani::stub(core::str::from_utf8, crate::util::from_utf8_ref)]\n" if mod == "msg1029" else ""
        grp = "stub" if mod == "msg1029" else ("big" if cap >= 390 else "main")
        variants = []   # (name, bytes, patches [(off,width,val)], main?, description)
        if fixed:
            w = G.width(mod, 0)
            full = (12 + w + 7) // 8
            variants = [("full", full, [], True, "full fixed layout, every field pattern"), ("short", full - 1, [], False, "one byte short"), ("b3", 3, [], False, "3 bytes")]
        elif mod in ("msg1059", "msg1065"):
            sb = 6 if mod == "msg1059" else 5
            hdr = 12 + G.width(mod, 0) - 6
            known = T.ssr[mod[3:]][0][0]
            unknown = [i for i in range(32) if i not in [r[0] for r in T.ssr[mod[3:]]]][0]
            for n, sig, tag in ((0, known, "n0"), (1, known, "n1"), (2, known, "n2"), (2, unknown, "n2unk")):
                patches = [(hdr, 6, n)]
                o = hdr + 6
                for i in range(n):
                    patches.append((o + sb, 5, 1))
                    patches.append((o + sb + 5, 5, sig))
                    o += sb + 5 + 5 + (14 if sig == known else 0)
                variants.append((tag, (o + 7) // 8, patches, tag in ("n2", "n2unk"), "%d satellites x 1 entry, signal id %d (%s), satellite ids and biases symbolic" % (n, sig, "recognised" if sig == known else "unrecognised")))
            variants.append(("b3", 3, [], False, "3 bytes"))
        elif mod in ("msg1029", "msg1230"):
            for n in (0, 1, 2, 4):
                w = G.width(mod, n)
                B = (12 + w + 7) // 8
                hdr = 12 + G.width(mod, 0)
                if mod == "msg1029":
                    patches = [(hdr - 8, 8, n)]
                    desc = "byte count %d, text bytes symbolic (valid and invalid UTF-8)" % n
                else:
                    patches = [(hdr - 4, 4, (0b1111 << (4 - n)) & 0b1111)]
                    desc = "signal mask with %d entries" % n
                variants.append(("n%d" % n, B, patches, n == 2, desc))
            variants.append(("b3", 3, [], False, "3 bytes"))
        else:
            import props.c15 as c15
            for n in (0, 1, 2):
                lay = c15.Lay(G, n)
                lay.walk(mod, "m")
                patches = [(off, w, n) for off, w, _, _ in lay.counts]
                variants.append(("n%d" % n, (lay.off + 7) // 8, patches, n == 2, "every list/string count set to %d, everything else symbolic" % n))
            lay3 = c15.Lay(G, 3)
            lay3.walk(mod, "m")
            lay2 = c15.Lay(G, 2)
            lay2.walk(mod, "m")
            variants.append(("n3short", (lay2.off + 7) // 8, [(off, w, 3) for off, w, _, _ in lay3.counts], False, "counts say 3 but the body holds 2: buffer-overflow path"))
            variants.append(("b3", 3, [], False, "3 bytes"))
        for vname, B, patches, main, desc in variants:
            fin = []
            G.finite_checks(mod, "m", 2, fin)
            name = "%s_%s" % (mod, vname)
            pt = concrete_bytes(patches, B)
            code.append("""#[kani::proof]
#[kani::unwind(%d)]
%spub fn %s() {
    let mut payload: [u8; %d] = kani::any();
    %s
    let mut par = Parser::new(&payload, 12);
    match codec::%s::decode(&mut par) {
        Ok(m) => {
            %s
            assert!(m == m);
            kani::cover!(true);
        }
        Err(_) => {}
    }
}
""" % (unw, stub, name, B, pt, mod, "\n            ".join(fin)))
            heavy = mod in ("msg1004", "msg1012", "msg1003", "msg1011", "msg1002", "msg1010")
            # measured: the legacy observables 1002-1004/1010-1012 and the 1029 text exceed 12 GB within minutes
            is_q = q and main and not heavy and mod not in ("msg1065", "msg1029")
            hs.append({"name": "c02::%s" % name, "group": grp, "tier": "quick" if is_q else "thorough",
                       "bounds": "%s: every payload of %d bytes with %s" % (mod, B, desc)})
    gen.write_gen("c02_list.rs", "\n".join(code))
    return {
        "harnesses": hs,
        "groups": {"main": {"features": ["c02"], "timeout_s": 1800},
                   "msm": {"features": ["c02"], "est_gb": 10, "mem_gb": 20, "timeout_s": 3000},
                   "big": {"features": ["c02"], "est_gb": 12, "timeout_s": 2400, "unwindset": [["try_from_fn_erased", 392]], "mem_gb": 26, "max_jobs": 2},
                   "stub": {"features": ["c02"], "est_gb": 10, "timeout_s": 1800, "unwindset": [["try_from_fn_erased", 392]], "mem_gb": 26, "max_jobs": 2, "kani_args": ["-Z", "stubbing"]}},
        "level": "model_checking",
        "functions": ["rtcm_rs::msg::msgNNNN::decode for all %d message types (called through the verification hook re-exports)" % len(T.messages),
                      "Parser::parse, df::dfs::*::decode, frag_vec/frag_vec_with_len/frag_grid16p/msm_* decode, DataVec::push/set_len"],
        "bounds": {"fixed_layout": "full-length payload (all bit patterns of every field), full-1 and 3 bytes",
                   "lists": "count fields fixed to 0, 1, 2 per harness (and 3 with a body for 2: overflow path), every other bit symbolic; counts above capacity: C15",
                   "msm": "satellite, signal and cell masks from 8 concrete shapes (0x0, 1x1, 2x2 partial/full/all-zero cell mask, 3x2, 8x8 = 64 cells, 9x8 = 72 cells), all row data symbolic; a symbolic cell mask makes the row counts symbolic and does not finish in 40 min",
                   "1059/1065": "0..2 satellites x 1 entry with a recognised / an unrecognised signal id, satellite ids and biases symbolic; the 391st push is C16's capacity harness",
                   "checks": "all Kani default checks (overflow, shifts, indices, unwrap, capacity panics) + floats finite + m == m",
                   "quick": "%d representative types; thorough: all %d" % (len(QUICK), len(T.messages))},
        "outside": ["payloads longer than the stated B per type (the max-count container overflow of 1059/1065 needs ~930 bytes: covered by C16's capacity harness)",
                    "frame layer and dispatch: C05 (scanner, no panic on any buffer <= N) and C14"],
        "assumptions": ["msg1029: core::str::from_utf8 replaced by a reference validator (std's block-wise validator does not get through symbolic execution)",
                        "Kani models the dev profile with overflow checks = the stricter of the two profiles in the property"],
        "samples": [{"harness": "c02::msg1004_n2", "symbolic": {"payload": "every byte"}, "asserts": "decode returns Ok or Err without any panic/overflow; Ok => all floats finite, m == m"}],
        "explanation": "Each decoder is symbolically executed on an arbitrary payload of concrete length; every Rust panic site is an assertion the solver must prove unreachable.",
    }
