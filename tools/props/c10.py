"""C10 — MSM masks: helpers, row order for every MSM type, error classes, symbolic-id mask logic."""
import gen
import msggen

QUICK_ROWS = ["msg1071", "msg1074"]
PERMS3 = [(0, 1, 2), (2, 1, 0), (1, 2, 0)]


def seg_of(T, mod):
    if T.frags[mod]["macro"] != "msg":
        return None
    for _, s, _ in T.frags[mod]["fields"]:
        if T.classify(s) == "msm_data_seg_frag":
            return T.frags[s]
    return None


def tag_field(T, fr):
    """first field of a sat/sig fragment that can carry a small tag exactly: (name, rust expr maker)"""
    for name, leaf, _ in fr["fields"]:
        f = T.field[leaf]
        if not f["is_float"] and f["len"] >= 2 and not f["bias_src"]:
            return name, f, (lambda t, f=f: ("Some(%d)" % t) if f["optional"] else str(t))
    for name, leaf, _ in fr["fields"]:
        f = T.field[leaf]
        if f["is_float"] and f["res_pow2"] and f["len"] >= 3:
            return name, f, (lambda t, f=f: ("Some((%d as %s) * (%s))" % (t, f["dt"], f["res_src"])) if f["optional"] else "(%d as %s) * (%s)" % (t, f["dt"], f["res_src"]))
    raise Exception("no tag field in %s" % fr["id"])


def default_fields(T, fr, tagname, tagexpr):
    parts = []
    for name, leaf, _ in fr["fields"]:
        if name == tagname:
            parts.append("%s: %s" % (name, tagexpr))
        else:
            parts.append("%s: Default::default()" % name)
    return ", ".join(parts)


def generate(T, tier):
    G = msggen.MsgGen(T)
    code = ["use crate::util::*;", "use rtcm_rs::rtcm_error::RtcmError as E;", ""]
    hs = []
    for k in (1, 2, 3, 8, 13, 32):
        hs.append({"name": "c10::helper_cells_k%d" % k, "group": "main", "tier": "thorough",
                   "bounds": "cell_mask_id_vec: all 2^64 satellite masks x all 2^64 cell masks, one concrete signal mask of %d bits" % k})
    hs.append({"name": "c10::helper_ids_u64", "group": "main", "tier": "quick", "bounds": "mask_to_id_vec_u64 / mask_len_u64 on all 2^64 masks"})
    hs.append({"name": "c10::helper_ids_u32", "group": "main", "tier": "quick", "bounds": "mask_to_id_vec_u32 / mask_len_u32 on all 2^32 masks"})
    done_err = set()
    for m in T.messages:
        mod = m["module"]
        seg = seg_of(T, mod)
        if seg is None:
            continue
        gnss = seg["gnss"]
        tab = sorted(T.msm[gnss])
        satfr, sigfr = T.frags[seg["sat_id"]], T.frags[seg["sig_id"]]
        st_name, st_f, st_mk = tag_field(T, satfr)
        sg_name, sg_f, sg_mk = tag_field(T, sigfr)
        sigA, sigB = tab[0], tab[-1]
        if len(tab) == 1:
            sigB = sigA
        segmod = seg["id"]
        sid = "rtcm_rs::verif_hooks::codec::%s::SigId" % gnss
        # canonical rows: satellites [3, 40]; cells (3,A), (3,B), (40,B)  [B == A -> cells (3,A),(40,A)]
        cells = [(3, sigA), (3, sigB), (40, sigB)] if sigA != sigB else [(3, sigA), (40, sigA)]
        ncell = len(cells)
        nsig = 2 if sigA != sigB else 1
        sat_w = sum(T.field[s]["len"] for _, s, _ in satfr["fields"])
        sig_w = sum(T.field[s]["len"] for _, s, _ in sigfr["fields"])
        total = 96 + 2 * nsig + 2 * sat_w + ncell * sig_w
        satmask = (1 << (64 - 3)) | (1 << (64 - 40))
        sigmask = 0
        for s in {sigA[0], sigB[0]}:
            sigmask |= 1 << (32 - s)
        # incidence row-major over (3,40) x (A,B)
        if nsig == 2:
            cellmask = 0b1101
        else:
            cellmask = 0b11
        perms = PERMS3 if ncell == 3 else [(0, 1), (1, 0)]
        for so in (0, 1):
            for pi, perm in enumerate(perms):
                if so == 0 and pi == 0 and mod not in QUICK_ROWS:
                    pass
                sat_order = [3, 40] if so == 0 else [40, 3]
                sat_push = " ".join("sats.push(rtcm_rs::msg::%s { satellite_id: %d, %s });" % (satfr["type_name"], s, default_fields(T, satfr, st_name, st_mk(1 if s == 3 else 2))) for s in sat_order)
                sig_push = " ".join("sigs.push(rtcm_rs::msg::%s { satellite_id: %d, signal_id: %s::new(%d, '%s'), %s });" %
                                    (sigfr["type_name"], cells[i][0], sid, cells[i][1][1], cells[i][1][2], default_fields(T, sigfr, sg_name, sg_mk(i + 1))) for i in perm)
                checks = []
                for idx, s in enumerate([3, 40]):
                    checks.append("assert!(d.satellite_data[%d].satellite_id == %d && d.satellite_data[%d].%s == %s);" % (idx, s, idx, st_name, st_mk(idx + 1)))
                for idx, (s, sg) in enumerate(cells):
                    checks.append("assert!(d.signal_data[%d].satellite_id == %d && d.signal_data[%d].signal_id == %s::new(%d, '%s') && d.signal_data[%d].%s == %s);" %
                                  (idx, s, idx, sid, sg[1], sg[2], idx, sg_name, sg_mk(idx + 1)))
                name = "rows_%s_o%d_p%d" % (mod, so, pi)
                nbytes = (total + 7) // 8 + 1
                code.append("""#[kani::proof]
#[kani::unwind(66)]
pub fn %(name)s() {
    use rtcm_rs::verif_hooks::codec::%(segmod)s as c;
    let mut sats = rtcm_rs::util::DataVec::<rtcm_rs::msg::%(satT)s, 64>::new();
    %(sat_push)s
    let mut sigs = rtcm_rs::util::DataVec::<rtcm_rs::msg::%(sigT)s, 64>::new();
    %(sig_push)s
    let v = rtcm_rs::msg::%(segT)s { satellite_data: sats, signal_data: sigs };
    let mut buf = [0u8; %(nbytes)d];
    let off = {
        let mut asm = Assembler::new(&mut buf, 0);
        assert!(c::encode(&mut asm, &v).is_ok());
        asm.offset()
    };
    assert!(off == %(total)d);
    assert!(get_bits(&buf, 0, 64) == 0x%(satmask)x);
    assert!(get_bits(&buf, 64, 32) == 0x%(sigmask)x);
    assert!(get_bits(&buf, 96, %(ncm)d) == 0b%(cellmask)s);
    let mut par = Parser::new(&buf, 0);
    let d = match c::decode(&mut par) {
        Ok(d) => d,
        Err(_) => {
            assert!(false);
            return;
        }
    };
    assert!(par.offset() == off);
    assert!(d.satellite_data.len() == 2 && d.signal_data.len() == %(ncell)d);
    %(checks)s
    // the decoded value is in encoder normal form: re-encoding reproduces the bits
    let mut buf2 = [0u8; %(nbytes)d];
    {
        let mut asm = Assembler::new(&mut buf2, 0);
        assert!(c::encode(&mut asm, &d).is_ok());
        assert!(asm.offset() == off);
    }
    let mut i = 0;
    while i < %(nbytes)d {
        assert!(buf[i] == buf2[i]);
        i += 1;
    }
}
""" % {"name": name, "segmod": segmod, "satT": satfr["type_name"], "sigT": sigfr["type_name"], "segT": seg["type_name"], "sat_push": sat_push, "sig_push": sig_push,
       "nbytes": nbytes, "total": total, "satmask": satmask, "sigmask": sigmask, "ncm": 2 * nsig, "cellmask": bin(cellmask)[2:], "ncell": ncell, "checks": "\n    ".join(checks)})
                # encode-only variant: mask bits and the position of every row tag in the bit stream
                # (column-wise rows, ascending satellite then signal). The full encode/decode/re-encode
                # harness above costs ~20 min for MSM1 and more for MSM4-7; this one is the quick tier.
                def col_off(fr, tagname, nrows, base):
                    o = base
                    for fname, leaf, _ in fr["fields"]:
                        if fname == tagname:
                            return o, T.field[leaf]["len"]
                        o += nrows * T.field[leaf]["len"]
                    raise Exception("tag")
                so_off, so_w = col_off(satfr, st_name, 2, 96 + 2 * nsig)
                sg_off, sg_w = col_off(sigfr, sg_name, ncell, 96 + 2 * nsig + 2 * sat_w)
                tag_checks = ["assert!(get_bits(&buf, %d, %d) == %d);" % (so_off + i * so_w, so_w, i + 1) for i in range(2)]
                tag_checks += ["assert!(get_bits(&buf, %d, %d) == %d);" % (sg_off + i * sg_w, sg_w, i + 1) for i in range(ncell)]
                ename = "rowsenc_%s_o%d_p%d" % (mod, so, pi)
                code.append("""#[kani::proof]
#[kani::unwind(66)]
pub fn %(name)s() {
    use rtcm_rs::verif_hooks::codec::%(segmod)s as c;
    let mut sats = rtcm_rs::util::DataVec::<rtcm_rs::msg::%(satT)s, 64>::new();
    %(sat_push)s
    let mut sigs = rtcm_rs::util::DataVec::<rtcm_rs::msg::%(sigT)s, 64>::new();
    %(sig_push)s
    let v = rtcm_rs::msg::%(segT)s { satellite_data: sats, signal_data: sigs };
    let mut buf = [0u8; %(nbytes)d];
    let off = {
        let mut asm = Assembler::new(&mut buf, 0);
        assert!(c::encode(&mut asm, &v).is_ok());
        asm.offset()
    };
    assert!(off == %(total)d);
    assert!(get_bits(&buf, 0, 64) == 0x%(satmask)x);
    assert!(get_bits(&buf, 64, 32) == 0x%(sigmask)x);
    assert!(get_bits(&buf, 96, %(ncm)d) == 0b%(cellmask)s);
    %(tags)s
}
""" % {"name": ename, "segmod": segmod, "satT": satfr["type_name"], "sigT": sigfr["type_name"], "segT": seg["type_name"], "sat_push": sat_push, "sig_push": sig_push,
       "nbytes": nbytes, "total": total, "satmask": satmask, "sigmask": sigmask, "ncm": 2 * nsig, "cellmask": bin(cellmask)[2:], "tags": "\n    ".join(tag_checks)})
                hs.append({"name": "c10gen::%s" % ename, "group": "rowsenc", "tier": "quick" if (mod in QUICK_ROWS and (so, pi) == (1, 1)) else "thorough",
                           "bounds": "%s encode only: satellites listed as %s, cells in caller order %s: mask bits and the bit position of every row tag (ascending satellite, then signal)" % (mod, sat_order, perm)})
                q = False
                hs.append({"name": "c10gen::%s" % name, "group": "rows", "tier": "quick" if q else "thorough",
                           "bounds": "%s: satellites {3,40} listed as %s, cells {(3,%d),(3,%d),(40,%d)} in caller order %s, rows tagged through %s/%s" % (mod, sat_order, sigA[0], sigB[0], sigB[0], perm, st_name, sg_name)})
        # error classes and symbolic-id masks once per constellation, on its cheapest (first) type
        if gnss in done_err:
            continue
        done_err.add(gnss)
        first = gnss == "gps"
        sat_def = default_fields(T, satfr, None, None)
        sig_def = default_fields(T, sigfr, None, None)

        def seg_expr(sat_ids, cell_list):
            sp = " ".join("sats.push(rtcm_rs::msg::%s { satellite_id: %s, %s });" % (satfr["type_name"], s, sat_def) for s in sat_ids)
            cp = " ".join("sigs.push(rtcm_rs::msg::%s { satellite_id: %s, signal_id: %s, %s });" % (sigfr["type_name"], s, sg, sig_def) for s, sg in cell_list)
            return "{ let mut sats = rtcm_rs::util::DataVec::<rtcm_rs::msg::%s, 64>::new(); %s let mut sigs = rtcm_rs::util::DataVec::<rtcm_rs::msg::%s, 64>::new(); %s rtcm_rs::msg::%s { satellite_data: sats, signal_data: sigs } }" % (
                satfr["type_name"], sp, sigfr["type_name"], cp, seg["type_name"])

        A = "%s::new(%d, '%s')" % (sid, sigA[1], sigA[2])
        errs = [
            ("sat_id_range", "let s: u8 = kani::any(); kani::assume(s == 0 || s > 64);", seg_expr(["s", "7"], [("s", A), ("7", A)]), "E::InvalidSatelliteId", "a satellite id of 0 or 65..=255 (symbolic)"),
            ("cell_sat_range", "let s: u8 = kani::any(); kani::assume(s == 0 || s > 64);", seg_expr(["7"], [("7", A), ("s", A)]), "E::InvalidSatelliteId", "a cell whose satellite id is 0 or 65..=255"),
            ("sig_unknown", "let b: u8 = kani::any(); let a: char = kani::any(); kani::assume(crate::spec::table_id(crate::spec::%s, b, a).is_none());" % msggen.MSM_GNSS_TABLE[gnss],
             seg_expr(["7"], [("7", "%s::new(b, a)" % sid)]), "E::InvalidSignalId", "any descriptor outside the reference table (symbolic band and attribute)"),
            ("dup_sat", "let s: u8 = kani::any(); kani::assume(s >= 1 && s <= 64);", seg_expr(["s", "s"], [("s", A)]), "E::DuplicateSatellite", "the same satellite listed twice (symbolic id)"),
            ("dup_cell", "let s: u8 = kani::any(); kani::assume(s >= 1 && s <= 64);", seg_expr(["s"], [("s", A), ("s", A)]), "E::DuplicateSatelliteSignal", "the same cell listed twice"),
            ("sat_mismatch", "let s: u8 = kani::any(); let t: u8 = kani::any(); kani::assume(s >= 1 && s <= 64 && t >= 1 && t <= 64 && s != t);", seg_expr(["s"], [("t", A)]), "E::SatelliteMismatch", "satellite rows {s} and cell rows {t}, s != t"),
            ("sat_list_empty", "let s: u8 = kani::any(); kani::assume(s >= 1 && s <= 64);", seg_expr([], [("s", A)]), "E::SatelliteMismatch", "cells but no satellite rows at all"),
            ("cell_list_empty", "let s: u8 = kani::any(); kani::assume(s >= 1 && s <= 64);", seg_expr(["s"], []), "E::SatelliteMismatch", "satellite rows but no cells at all"),
            ("sat_unused", "let s: u8 = kani::any(); let t: u8 = kani::any(); kani::assume(s >= 1 && s <= 64 && t >= 1 && t <= 64 && s != t);", seg_expr(["s", "t"], [("s", A)]), "E::SatelliteMismatch", "a satellite without any cell"),
        ]
        for en, pre, expr, want, desc in errs:
            name = "err_%s_%s" % (gnss, en)
            code.append("""#[kani::proof]
#[kani::unwind(66)]
pub fn %s() {
    use rtcm_rs::verif_hooks::codec::%s as c;
    %s
    let v = %s;
    let mut buf = [0u8; 64];
    let mut asm = Assembler::new(&mut buf, 0);
    let r = c::encode(&mut asm, &v);
    assert!(matches!(r, Err(%s)));
}
""" % (name, segmod, pre, expr, want))
            hs.append({"name": "c10gen::%s" % name, "group": "err", "tier": "quick" if first else "thorough", "bounds": "%s (%s): %s => %s" % (mod, gnss, desc, want)})
        # more than 64 mask cells must be refused
        if len(tab) >= 13:
            cl = [(str(1 + j % 5), "%s::new(%d, '%s')" % (sid, tab[j][1], tab[j][2])) for j in range(13)]
            name = "err_%s_cells65" % gnss
            code.append("""#[kani::proof]
#[kani::unwind(66)]
pub fn %s() {
    use rtcm_rs::verif_hooks::codec::%s as c;
    let v = %s;
    let mut buf = [0u8; 128];
    let mut asm = Assembler::new(&mut buf, 0);
    let r = c::encode(&mut asm, &v);
    assert!(matches!(r, Err(E::InvalidSatelliteSignalCount)));
}
""" % (name, segmod, seg_expr(["1", "2", "3", "4", "5"], cl)))
            hs.append({"name": "c10gen::%s" % name, "group": "err", "tier": "quick" if first else "thorough", "bounds": "%s: 5 satellites x 13 distinct signals = 65 mask cells => InvalidSatelliteSignalCount" % mod})
        # mask logic with symbolic identifiers (encode only): 2 satellites, 2 cells
        RT = msggen.MSM_GNSS_TABLE[gnss]
        name = "masks_%s_s2c2" % gnss
        code.append("""#[kani::proof]
#[kani::unwind(66)]
pub fn %(name)s() {
    use rtcm_rs::verif_hooks::codec::%(segmod)s as c;
    use crate::spec::%(RT)s as RT;
    let s0: u8 = kani::any();
    let s1: u8 = kani::any();
    kani::assume(s0 >= 1 && s0 <= 64 && s1 >= 1 && s1 <= 64 && s0 != s1);
    let i0: usize = kani::any();
    let i1: usize = kani::any();
    kani::assume(i0 < RT.len() && i1 < RT.len());
    let g0 = %(sid)s::new(RT[i0].1, RT[i0].2);
    let g1 = %(sid)s::new(RT[i1].1, RT[i1].2);
    // every satellite used by a cell, cells distinct: (s0,g0), (s1,g1)
    let v = %(expr)s;
    let mut buf = [0u8; 64];
    let off = {
        let mut asm = Assembler::new(&mut buf, 0);
        assert!(c::encode(&mut asm, &v).is_ok());
        asm.offset()
    };
    let sm = get_bits(&buf, 0, 64);
    let gm = get_bits(&buf, 64, 32) as u32;
    assert!(sm == (1u64 << (64 - s0)) | (1u64 << (64 - s1)));
    assert!(gm == (1u32 << (32 - RT[i0].0)) | (1u32 << (32 - RT[i1].0)));
    let nsig = if i0 == i1 { 1 } else { 2 };
    // row-major incidence over ascending satellites x ascending signal ids
    let lo_sat_first = s0 < s1;
    let want: u64 = if nsig == 1 {
        0b11
    } else {
        let g0_first = RT[i0].0 < RT[i1].0;
        // rows: lower satellite first; columns: lower signal id first
        let (a_sig_lo, b_sig_lo) = if lo_sat_first { (g0_first, !g0_first) } else { (!g0_first, g0_first) };
        let row_a = if a_sig_lo { 0b10 } else { 0b01 };
        let row_b = if b_sig_lo { 0b10 } else { 0b01 };
        (row_a << 2) | row_b
    };
    assert!(get_bits(&buf, 96, 2 * nsig) == want);
    assert!(off == 96 + 2 * nsig + 2 * %(sat_w)d + 2 * %(sig_w)d);
    kani::cover!(nsig == 2 && !lo_sat_first);
}
""" % {"name": name, "segmod": segmod, "RT": RT, "sid": sid, "expr": seg_expr(["s0", "s1"], [("s0", "g0"), ("s1", "g1")]), "sat_w": sat_w, "sig_w": sig_w})
        hs.append({"name": "c10gen::%s" % name, "group": "masks", "tier": "thorough",
                   "bounds": "%s (%s): 2 satellites with symbolic distinct ids 1..64, 2 cells with symbolic recognised signals, any order: mask bits and total length" % (mod, gnss)})
    gen.write_gen("c10_list.rs", "\n".join(code))
    return {
        "harnesses": hs,
        "groups": {"main": {"features": ["c10"], "timeout_s": 2400},
                   "rows": {"features": ["c10"], "est_gb": 8, "timeout_s": 3000},
                   "rowsenc": {"features": ["c10"], "est_gb": 6, "timeout_s": 2400},
                   "err": {"features": ["c10"], "est_gb": 5, "timeout_s": 2400},
                   "masks": {"features": ["c10"], "est_gb": 6, "timeout_s": 3000}},
        "level": "model_checking",
        "functions": ["msg::{mask_len_u32,mask_len_u64,mask_to_id_vec_u32,mask_to_id_vec_u64,cell_mask_id_vec}", "msgNNNN_data::{encode,decode} (msm_data_seg_frag) for all 49 MSM types",
                      "msm_sat_frag / msm_sig_frag encode (sort_unstable_by comparators, column-wise row order) and decode"],
        "bounds": {"helpers": "all satellite and cell masks; signal masks concrete per popcount {1,2,3,8,13,32}",
                   "rows": "every MSM type: satellites {3,40} x two signals (lowest and highest recognised id), both satellite orders x three cell orders, rows tagged; encode, mask bits, decode order, re-encode identical",
                   "errors": "per constellation, offending element symbolic: satellite 0/65..255, unrecognised signal (any band/char outside the reference table), duplicate satellite, duplicate cell, satellite/cell row mismatch, 65 cells",
                   "masks_symbolic": "per constellation: 2 satellites (symbolic ids) x 2 cells (symbolic recognised signals)"},
        "outside": ["arbitrary id sets combined with arbitrary field lists in one query (mask code never touches row fields: macro structure)", "more than 2 satellites with symbolic ids (3 M+ SAT variables per harness)"],
        "assumptions": ["reference signal tables in spec.rs", "row fields other than the tag at Default"],
        "samples": [{"harness": "c10gen::rows_msg1074_o1_p1", "symbolic": {"caller order": "satellites [40,3]; cells reversed"},
                     "asserts": "sat mask bits 3,40; sig mask bits of lowest/highest id; cell mask 1101; decoded rows ascending with their tags; re-encode identical"}],
        "explanation": "Mask helpers decided for all masks; per-type row order and mask bits decided on concrete id sets with every caller order; error classes with symbolic offending elements.",
    }
