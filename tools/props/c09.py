"""C09 — encoding is total, frames well formed (engine K through the public MessageBuilder::build_message)."""
import gen
import msggen

QUICK = ["msg1005", "msg1006", "msg1004", "msg1012", "msg1013", "msg1017", "msg1019", "msg1023", "msg1033",
         "msg1057", "msg1230", "msg1042", "msg1300", "msg1045"]
QUICK_MSM = ["msg1071", "msg1075", "msg1087"]


def msm_any(G, mod, nsat, ncell, fmode, concrete=None):
    """(expr for the whole message) with MSM data segment of nsat satellites / ncell cells.
    concrete = (sat ids, [(sat, band, attr)]) for concrete identifiers, else symbolic ids."""
    T = G.T
    fr = T.frags[mod]
    parts = []
    for name, sub, _ in fr["fields"]:
        if T.classify(sub) == "msm_data_seg_frag":
            seg = T.frags[sub]
            satfr, sigfr = T.frags[seg["sat_id"]], T.frags[seg["sig_id"]]
            gnss = seg["gnss"]
            sat_pushes, sig_pushes = [], []
            for i in range(nsat):
                sid = "kani::any()" if concrete is None else str(concrete[0][i])
                flds = ", ".join("%s: %s" % (n, G.any_expr(s, 0, fmode)) for n, s, _ in satfr["fields"])
                sat_pushes.append("sats.push(rtcm_rs::msg::%s { satellite_id: %s, %s });" % (satfr["type_name"], sid, flds))
            for i in range(ncell):
                if concrete is None:
                    sid, sig = "kani::any()", "rtcm_rs::verif_hooks::codec::%s::SigId::new(kani::any(), kani::any())" % gnss
                else:
                    s, band, attr = concrete[1][i]
                    sid, sig = str(s), "rtcm_rs::verif_hooks::codec::%s::SigId::new(%d, '%s')" % (gnss, band, attr)
                flds = ", ".join("%s: %s" % (n, G.any_expr(s, 0, fmode)) for n, s, _ in sigfr["fields"])
                sig_pushes.append("sigs.push(rtcm_rs::msg::%s { satellite_id: %s, signal_id: %s, %s });" % (sigfr["type_name"], sid, sig, flds))
            parts.append("%s: { let mut sats = rtcm_rs::util::DataVec::<rtcm_rs::msg::%s, 64>::new(); %s let mut sigs = rtcm_rs::util::DataVec::<rtcm_rs::msg::%s, 64>::new(); %s rtcm_rs::msg::%s { satellite_data: sats, signal_data: sigs } }" %
                         (name, satfr["type_name"], " ".join(sat_pushes), sigfr["type_name"], " ".join(sig_pushes), seg["type_name"]))
        else:
            parts.append("%s: %s" % (name, G.any_expr(sub, 0, fmode)))
    return "%s { %s }" % (G.elem_type(mod), ", ".join(parts))


HARNESS = """#[kani::proof]
#[kani::unwind(%(unw)d)]
pub fn %(name)s() {
    let m = %(expr)s;
    check_encode(%(number)d, %(must_err)s, |asm| rtcm_rs::verif_hooks::codec::%(mod)s::encode(asm, &m));
}
"""
FRAME = """#[kani::proof]
#[kani::unwind(%(unw)d)]
#[kani::stub(crc_any::CRCu32::digest, crate::util::stub_digest)]
#[kani::stub(crc_any::CRCu32::get_crc, crate::util::stub_get_crc)]
pub fn frame_%(name)s() {
    let m = %(expr)s;
    let msg = rtcm_rs::Message::%(variant)s(m);
    check_build(&msg, %(number)d, false);
}
"""
FRAME_TYPES = {"msg1005": 0, "msg1230": 2, "msg1008": 2}


def generate(T, tier):
    G = msggen.MsgGen(T)
    code = ["use crate::c09::{check_build, check_encode, check_field};", ""]
    hs = []
    for m in T.messages:
        mod = m["module"]
        cap = G.max_cap(mod)
        if G.is_msm(mod):
            seg = [T.frags[s] for _, s, _ in T.frags[mod]["fields"] if T.classify(s) == "msm_data_seg_frag"][0]
            gnss = seg["gnss"]
            tab = T.msm[gnss]
            q = mod in QUICK_MSM
            variants = [("e0", 0, 0, None, "false"), ("s1c1", 1, 1, None, "false"), ("s2c2", 2, 2, None, "false")]
            # more than 64 mask cells: 5 satellites x 13 recognised signals (constellations that have 13)
            if len(tab) >= 13:
                sats = [1, 2, 3, 4, 5]
                cells = []
                for j in range(13):
                    cells.append((sats[j % 5], tab[j][1], tab[j][2]))
                variants.append(("cells65", 5, 13, (sats, cells), "true"))
            for vname, ns, nc, conc, must_err in variants:
                name = "%s_%s" % (mod, vname)
                code.append(HARNESS % {"unw": 66, "name": name, "expr": msm_any(G, mod, ns, nc, "bits", conc), "mod": mod, "variant": m["variant"], "number": m["number"], "must_err": must_err})
                # symbolic-id MSM harnesses did not finish in 35 min: thorough tier; the 65-cell family (concrete ids) is quick
                tier_h = "quick" if (mod in ("msg1075", "msg1077") and vname == "cells65") else "thorough"
                hs.append({"name": "c09gen::%s" % name, "group": "msm", "tier": tier_h,
                           "bounds": "%s with %d satellites / %d cells, %s, every integer over its full Rust type, every float bit pattern" % (mod, ns, nc, "symbolic ids (0, 1..64, 65..255; any band/attribute)" if conc is None else "5x13 concrete ids = 65 mask cells")})
            continue
        ns = [0] if not G.has_var(mod) else [0, 1, 2]
        nfl = G.count_floats(mod, 2)
        fmode = "bits" if nfl <= 6 else "cand"
        for n in ns:
            name = "%s_n%d" % (mod, n)
            unw = max(12, min(cap, 64) + 2)
            code.append(HARNESS % {"unw": unw, "name": name, "expr": G.any_expr(mod, n, fmode), "mod": mod, "variant": m["variant"], "number": m["number"], "must_err": "false"})
            if FRAME_TYPES.get(mod) == n:
                code.append(FRAME % {"unw": unw, "name": name, "expr": G.any_expr(mod, n, "bits"), "variant": m["variant"], "number": m["number"]})
                hs.append({"name": "c09gen::frame_%s" % name, "group": "frame", "tier": "quick" if mod != "msg1008" else "thorough",
                           "bounds": "public MessageBuilder::build_message(Message::%s) with %d list elements: frame header, length, number, checksum placement" % (m["variant"], n)})
            q = mod in QUICK and (n == ns[-1] or n == 0) and not (mod in ("msg1004", "msg1012") and n > 0)
            hs.append({"name": "c09gen::%s" % name, "group": "big" if cap >= 390 else "main", "tier": "quick" if q else "thorough",
                       "bounds": "%s with every list/string at %d elements; every integer over its full Rust type (out-of-range included), %s" % (mod, n, "every float over all bit patterns (NaN, inf, subnormal, huge)" if fmode == "bits" else "floats drawn from boundary candidates incl. NaN/inf (every bit pattern per field is covered by the field_* harnesses)")})
    # field level: every df! codec on every input value
    seen = set()
    for f in T.fields:
        dt = f["dt"]
        if f["is_float"]:
            inner = "%s::from_bits(kani::any())" % dt
        else:
            inner = "kani::any::<%s>()" % dt
        val = "if kani::any() { Some(%s) } else { None }" % inner if f["optional"] else inner
        code.append("""#[kani::proof]
#[kani::unwind(12)]
pub fn field_%s() {
    let v: rtcm_rs::verif_hooks::dfs::%s::DataType = %s;
    check_field(%d, |asm| rtcm_rs::verif_hooks::dfs::%s::encode(asm, &v));
}
""" % (f["id"], f["id"], val, f["len"], f["id"]))
        shape = (f["dt"], f["it"], f["len"], f["res_src"], f["bias_src"], f["inv_src"])
        hs.append({"name": "c09gen::field_%s" % f["id"], "group": "field", "tier": "quick" if shape not in seen else "thorough",
                   "bounds": "dfs::%s::encode on every value of %s%s (all bit patterns incl. NaN/inf for floats; full integer range)" % (f["id"], f["dt"], " incl. None" if f["optional"] else "")})
        seen.add(shape)
    gen.write_gen("c09_list.rs", "\n".join(code))
    hs.append({"name": "c09::no_wire_form", "group": "main", "tier": "quick", "bounds": "Message::Empty, Corrupt, MsgNotSupported(any u16)"})
    stub = ["-Z", "stubbing"]
    return {
        "harnesses": hs,
        "groups": {"main": {"features": ["c09"], "timeout_s": 1800, "unwindset": [["try_from_fn_erased", 392]]},
                   "msm": {"features": ["c09"], "est_gb": 6, "timeout_s": 3000},
                   "big": {"features": ["c09"], "est_gb": 10, "timeout_s": 3000, "unwindset": [["try_from_fn_erased", 392]]},
                   "field": {"features": ["c09"], "timeout_s": 900},
                   "frame": {"features": ["c09"], "est_gb": 7, "timeout_s": 2400, "unwindset": [["try_from_fn_erased", 392]], "kani_args": stub}},
        "level": "model_checking",
        "functions": ["rtcm_rs::MessageBuilder::{new,build_message}", "msgNNNN::encode for all %d types" % len(T.messages), "df::dfs::*::encode", "Assembler::put", "bit_value::*::sign_fix_rev"],
        "bounds": {"values": "integers over their whole Rust type, floats over every bit pattern, optionals present/absent",
                   "lists": "0, 1, 2 elements (strings 0..2 chars); MSM: 0x0, 1 sat/1 cell, 2 sats/2 cells with symbolic ids, and 5x13 = 65 mask cells",
                   "frame": "8..=1029 bytes, 0xD3, six zero bits, length field, message number in the first 12 payload bits, checksum = CRC of bytes [0, len-3)",
                   "quick": "%d non-MSM + %d MSM representative types; thorough all %d" % (len(QUICK), len(QUICK_MSM), len(T.messages))},
        "outside": ["lists longer than 2 elements (count/capacity behaviour is C15; at-capacity encode is covered there)", "the checksum arithmetic itself (C03 ties crc_any to the bitwise CRC-24Q)"],
        "assumptions": ["CRCu32::digest/get_crc stubbed: records the digested range, returns an arbitrary 24-bit value (contract: function of the slice). In native replays the real CRC runs and MessageFrame::new must accept the frame."],
        "samples": [{"harness": "c09gen::msg1020_n0", "symbolic": {"every field": "full type range / all float bits"},
                     "asserts": "build_message never panics (all overflow/shift/index checks); Ok(frame) => well-formed header, number 1020, CRC over [0,len-3) stored big-endian"}],
        "explanation": "The public builder is symbolically executed on an arbitrary message value of each type; panics are assertions.",
    }
