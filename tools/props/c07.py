"""C07 — bit-field packing is exact (engine K on Assembler::put / Parser::parse)."""
import os
import re
import gen
import repo_tables

KIND_MACRO = {"u": "c07_u", "s": "c07_s", "sm": "c07_sm"}


def used_pairs(T):
    pairs = set()
    for f in T.fields:
        pairs.add((f["it"], f["len"]))
    # literal widths in hand-written codecs and in the macros of msg/mod.rs, df/mod.rs, message.rs
    files = ["src/msg/mod.rs", "src/df/mod.rs", "src/msg/message.rs"] + \
        ["src/df/dfs/" + f for f in sorted(os.listdir(os.path.join(repo_tables.REPO, "src/df/dfs")))]
    for rel in files:
        src = repo_tables._strip_comments(repo_tables.read(rel))
        for it, n in re.findall(r"put::<(\w+)>\([^;]*?,\s*(\d+)\s*\)", src):
            if it in repo_tables.CARRIER:
                pairs.add((it, int(n)))
        for it, n in re.findall(r"parse::<(\w+)>\(\s*(\d+)\s*\)", src):
            if it in repo_tables.CARRIER:
                pairs.add((it, int(n)))
    for s in T.strs:
        pairs.add(("U8", s["len_bits"]))
    for fr in T.frags.values():
        if fr["macro"] == "frag_vec_with_len":
            pairs.add(("U16", fr["len_bits"]))
    return pairs


def generate(T, tier):
    quick = used_pairs(T)
    # boundaries of every carrier, and a few cell-mask widths (put::<U64>(cell_mask, n), n = 1..64)
    for it, (kind, bits, vt) in repo_tables.CARRIER.items():
        quick.add((it, 1))
        quick.add((it, bits))
        quick.add((it, bits - 1))
    for n in (2, 9, 33, 57):
        quick.add(("U64", n))
    allp = set(quick)
    for it, (kind, bits, vt) in repo_tables.CARRIER.items():
        for n in range(1, bits + 1):
            allp.add((it, n))
    lines = []
    hs = []
    for it, n in sorted(allp, key=lambda p: (p[0], p[1])):
        kind, bits, vt = repo_tables.CARRIER[it]
        name = "%s_w%d" % (it.lower(), n)
        lines.append("%s!(%s, %s, %s, %d);" % (KIND_MACRO[kind], name, it, vt, n))
        q = (it, n) in quick
        for sub in ("put", "parse", "roundtrip", "overflow"):
            t = "quick" if q and (sub in ("put", "parse") or (sub == "overflow" and n == bits)) else "thorough"
            hs.append({"name": "c07::%s::%s" % (name, sub), "group": "main", "tier": t,
                       "bounds": "carrier %s width %d, bit offset 0..15, all values, all backgrounds (11-byte buffer)" % (it, n)})
    gen.write_gen("c07_list.rs", "\n".join(lines) + "\n")
    return {
        "harnesses": hs,
        "groups": {"main": {"features": ["c07"], "timeout_s": 900}},
        "level": "model_checking",
        "functions": ["rtcm_rs::df::assembler::Assembler::put::<IT>", "rtcm_rs::df::parser::Parser::parse::<IT>",
                      "rtcm_rs::df::bit_value::{U8..U64,I8..I64,SM8..SM64}::{sign_fix,sign_fix_rev,u8_cast,val_cast}"],
        "bounds": {"buffer_bytes": 11, "bit_offsets": "0..=15 (put/parse/roundtrip), 0..=88 (overflow)",
                   "widths": "quick: every (carrier,width) used by a df!/hand-written codec plus carrier boundaries (%d pairs); thorough: every width 1..=carrier for 12 carriers (%d pairs)" % (len(quick), len(allp)),
                   "values": "all representable values of (kind,width); parse: all buffer contents",
                   "unwind": 12},
        "outside": ["128-bit carriers (no field uses them)", "bit offsets >= 16 (the code uses offset only through offset%8 and offset/8)",
                    "values outside the representable range (wrap silently; C09/C11)"],
        "assumptions": ["value within the representable range of (kind,width)", "offset < 16"],
        "samples": [{"harness": "c07::u16_w10::put", "symbolic": {"buf": "[u8;11] any", "off": "0..16", "v": "u16 < 2^10"},
                     "asserts": "window88(after) == place88(window88(before), off, 10, v); cursor == off+10"},
                    {"harness": "c07::sm32_w32::parse", "symbolic": {"buf": "[u8;11] any", "off": "0..16"},
                     "asserts": "parse::<SM32>(32) == spec sign-magnitude decoding of the 32 bits at off (negative zero -> 0)"}],
        "explanation": "Kani/CBMC symbolic execution of the real put/parse against an independent 88-bit window spec; SAT (CaDiCaL) decides each harness for all values inside the bound; unwinding assertions on.",
    }
