"""C17 — text fields (engine K on util::Df88591String, util::ArrayString and the 1029 text codec)."""


def generate(T, tier):
    hs = [
        {"name": "c17::desc_4", "group": "main", "tier": "quick", "bounds": "Df88591String<4> from <= 6 chars, every Unicode scalar value"},
        {"name": "c17::desc_7", "group": "main", "tier": "quick", "bounds": "Df88591String<7> from <= 9 chars"},
        {"name": "c17::desc_31", "group": "main", "tier": "quick", "bounds": "Df88591String<31> (the capacity messages use) from <= 33 chars"},
        {"name": "c17::desc_push", "group": "main", "tier": "quick", "bounds": "push of every byte value"},
        {"name": "c17::desc_from_str_4", "group": "stub", "tier": "quick", "bounds": "From<&str> for Df88591String<4>, string of <= 5 symbolic chars (1-4 byte encodings)"},
        {"name": "c17::utf8_5", "group": "stub", "tier": "quick", "bounds": "ArrayString<5> from <= 4 chars: every straddling of the capacity"},
        {"name": "c17::utf8_8", "group": "stub", "tier": "thorough", "bounds": "ArrayString<8> from <= 4 chars"},
        {"name": "c17::msg1029_decode", "group": "stub", "tier": "thorough", "bounds": "1029 text decoder: byte count <= 4, all byte values"},
        {"name": "c17::msg1029_encode_limits", "group": "stub", "tier": "thorough", "bounds": "1029 text encoder: ASCII text of every length 0..=130 (127/128 character boundary)"},
    ]
    return {
        "harnesses": hs,
        "groups": {"main": {"features": ["c17"], "timeout_s": 1800},
                   "stub": {"features": ["c17"], "est_gb": 6, "timeout_s": 1800, "unwindset": [["try_from_fn_erased", 392]], "kani_args": ["-Z", "stubbing"]}},
        "level": "model_checking",
        "functions": ["rtcm_rs::util::Df88591String::{from_iter,from,push,try_push,chars,iter,len}", "rtcm_rs::util::ArrayString::{from_iter,try_push,deref}",
                      "df::dfs::df_msg1029_utf8_str::{encode,decode}"],
        "bounds": {"descriptor": "N in {4,7,31}, all char sequences of length <= N+2 over all scalar values", "utf8": "N in {5 (quick), 8}: <= 4 chars with 1-4 byte encodings",
                   "1029": "decode: <= 4 text bytes, all values; encode: ASCII length 0..=130"},
        "outside": ["ArrayString<255> at its own capacity (the generic code uses N only through capacity())", "the 255-byte limit of 1029 (needs 128+ multi-byte characters)",
                    "message round trip of text fields: C01 harnesses for 1007/1008/1033/1029/130x"],
        "assumptions": ["core::str::from_utf8 replaced under -Z stubbing by spec::utf8_valid + from_utf8_unchecked (std's validator trusted; the reference validator is a transcription of Unicode table 3-7)"],
        "samples": [{"harness": "c17::desc_31", "symbolic": {"chars": "[char;33] any", "cnt": "0..=33"},
                     "asserts": "len == min(cnt,31); byte i == c as u8 if 1<=c<=255 else 0xA4; chars() yields char::from(byte)"}],
        "explanation": "Bounded model checking of the two string types against the Latin-1 / UTF-8 prefix rules written from the property text.",
    }
