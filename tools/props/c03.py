"""C03 — frame acceptance predicate (engine K on MessageFrame::new + the real crc_any object)."""


def generate(T, tier):
    hs = [
        {"name": "c03::short_10", "group": "main", "tier": "quick",
         "bounds": "all slices of <= 10 bytes (L <= 4), all contents"},
        {"name": "c03::short_12", "group": "main", "tier": "quick",
         "bounds": "all slices of <= 12 bytes (L <= 6), all contents"},
        {"name": "c03::short_16", "group": "main", "tier": "thorough",
         "bounds": "all slices of <= 16 bytes (L <= 10), all contents"},
        {"name": "c03::crc_step", "group": "main", "tier": "quick",
         "bounds": "all 2^24 CRC states x all 256 next bytes"},
        {"name": "c03::long", "group": "stub", "tier": "quick",
         "bounds": "1040-byte buffer, slice length 0..=1040, every declared L 0..=1023, CRC value arbitrary (arithmetic stubbed)"},
    ]
    return {
        "harnesses": hs,
        "groups": {"main": {"features": ["c03"], "timeout_s": 1500},
                   "stub": {"features": ["c03"], "timeout_s": 900, "kani_args": ["-Z", "stubbing"]}},
        "level": "model_checking",
        "functions": ["rtcm_rs::MessageFrame::new", "MessageFrame::{frame_len,data_len,data,frame_data,crc,message_number}",
                      "crc_any::CRC::crc24lte_a / CRCu32::digest / CRCu32::get_crc (real table-driven implementation)"],
        "bounds": {"short": "slice length <= 12 (quick) / 16 (thorough), every byte symbolic", "crc_step": "state space complete: 3-byte prefix -> state proved injective, so all 2^24 states x 256 bytes",
                   "long": "every L in 0..=1023 with digest/get_crc stubbed", "unwind": "12/14/18, unwinding assertions on"},
        "outside": ["slices longer than 16 bytes with the real CRC arithmetic in one query (covered by induction argument: short_N base + crc_step step, DESIGN.md C03)"],
        "assumptions": ["c03::long: CRCu32::digest/get_crc replaced by stubs that record the digested (pointer,length) and return an arbitrary 24-bit value; contract used: the CRC is a function of the digested slice only (its arithmetic is what short_N and crc_step verify)"],
        "samples": [{"harness": "c03::short_12", "symbolic": {"buf": "[u8;12] any", "len": "0..=12"},
                     "asserts": "MessageFrame::new(&buf[..len]) agrees with spec_frame (bitwise CRC-24Q, poly 0x1864CFB, init 0): Accept(L) <-> Ok with frame_len=L+6, data=buf[3..3+L], crc; Incomplete; NotValid"},
                    {"harness": "c03::long", "symbolic": {"buf": "[u8;1040] any", "len": "0..=1040", "crc": "u24 any"},
                     "asserts": "one digest over exactly buf[0..L+3]; Ok <-> bytes L+3..L+6 == crc big-endian (all 24 bits); accessors; message_number from the frame's own L"}],
        "explanation": "Bounded model checking of the real frame parser against an independent bitwise CRC-24Q; CRC step lemma over the complete state space extends the short-slice result to any length by induction (argument); long frames decided with the CRC stubbed.",
    }
