"""C14 — decode outcome classified by message number: M on the dispatch MIR (all 4096 numbers) + K anchors."""
import gen
import msggen

QUICK = ["msg1005"]
THOROUGH = ["msg1005", "msg1230", "msg1006", "msg1013", "msg1033", "msg1057", "msg1071", "msg1077", "msg1127", "msg1304", "msg1001", "msg1029"]


def generate(T, tier):
    G = msggen.MsgGen(T)
    code = []
    hs = []
    for m in T.messages:
        mod = m["module"]
        if mod not in THOROUGH or mod == "msg1029":
            continue
        if G.is_msm(mod):
            nbytes = 6 + 2 + 22      # header + masks region, decoders fail or return the empty segment
        else:
            w = G.width(mod, 0)
            nbytes = 6 + (12 + w + 7) // 8
        code.append("typed!(typed_%d, %d, %s, %d);" % (m["number"], m["number"], m["variant"], nbytes))
        hs.append({"name": "c14::typed_%d" % m["number"], "group": "stub", "tier": "quick" if mod in QUICK else "thorough",
                   "bounds": "public MessageFrame::new(frame).get_message() for number %d, %d-byte frame, payload symbolic except the 4 bits after the number" % (m["number"], nbytes)})
    # unsupported numbers: concrete anchors of the `otherwise` arm
    sup = set(T.features)
    uns = [n for n in (0, 1000, 1018, 1028, 1043, 1069, 1229, 1305, 4095) if n not in sup]
    for n in uns:
        code.append("""#[kani::proof]
#[kani::unwind(12)]
#[kani::stub(crc_any::CRCu32::digest, crate::util::stub_digest)]
#[kani::stub(crc_any::CRCu32::get_crc, crate::util::stub_get_crc)]
pub fn unsupported_%d() {
    let f = frame_for::<10>(%d);
    match MessageFrame::new(&f) {
        Ok(fr) => match fr.get_message() {
            Message::MsgNotSupported(t) => assert!(t.message_number == %d),
            _ => assert!(false),
        },
        Err(_) => assert!(false),
    }
}""" % (n, n, n))
        hs.append({"name": "c14::unsupported_%d" % n, "group": "stub", "tier": "quick" if n in (1018, 4095) else "thorough",
                   "bounds": "unsupported number %d through the public path => MsgNotSupported{%d}" % (n, n)})
    for l in (0, 1):
        hs.append({"name": "c14::empty_%d" % l, "group": "stub", "tier": "thorough", "bounds": "frame with L = %d inside a 12-byte buffer (arbitrary payload/bytes after the frame) => Empty" % l})
    # the message-number rule for every declared length (shared with C03/C13)
    hs.append({"name": "c03::long", "group": "c03stub", "tier": "quick", "bounds": "message_number() is Some(first 12 payload bits) iff L >= 2, for every L 0..=1023 (CRC stubbed)"})
    gen.write_gen("c14_list.rs", "\n".join(code) + "\n")
    return {
        "harnesses": hs,
        "groups": {"stub": {"features": ["c14"], "est_gb": 7, "timeout_s": 2400, "kani_args": ["-Z", "stubbing"]},
                   "c03stub": {"features": ["c03"], "timeout_s": 900, "kani_args": ["-Z", "stubbing"]}},
        "smt": {"mode": "dispatch", "queries": [{"name": "m::dispatch::%s" % q} for q in ("from_message_frame_table", "number_table", "build_message_table", "facts")]},
        "level": "model_checking",
        "solver": "M: z3 4.8.12 + cvc5 1.0 over the switch tables read from the MIR; K: CBMC 6.11 + CaDiCaL via Kani",
        "functions": ["rtcm_rs::Message::from_message_frame", "rtcm_rs::Message::number", "rtcm_rs::MessageBuilder::build_message (dispatch)", "MessageFrame::{new,get_message,message_number,data}"],
        "bounds": {"M": "all n in 0..=4095 (decode dispatch), all 65536 discriminant values (number(), build_message dispatch); decode calls are uninterpreted Ok/Err outcomes",
                   "K": "public path for %d (quick) / %d (thorough) supported numbers with minimal-length symbolic payloads, unsupported anchors, L<2 => Empty" % (len(QUICK), len(THOROUGH) - 1)},
        "outside": ["K direction with arbitrary low nibble after the number (a non-constant number makes CBMC explore all 108 decoders: 21 GB, no verdict)"],
        "assumptions": ["supported set S = msgNNNN features listed in Cargo.toml (all_msgs and the individual feature declarations must agree)",
                        "M trusts its structural reading of three MIR functions; anchored by the K harnesses on the compiled code", "CRC arithmetic stubbed in the K harnesses (C03 covers it)"],
        "samples": [{"query": "m::dispatch::from_message_frame_table", "symbolic": {"n": "0..=4095"}, "asserts": "unsat( n supported and (decoder != msg<n> or variant != Msg<n> or Err not mapped to Corrupt) or n unsupported and arm != otherwise )"}],
        "explanation": "The dispatch is one MIR switchInt; its table is turned into an SMT function of a symbolic number and compared with the feature list for every number.",
    }
