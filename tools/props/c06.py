"""C06 — chunking independence, by transitivity through the reference scanner."""


def generate(T, tier):
    hs = [
        {"name": "c05::scan_8", "group": "scan", "tier": "quick", "bounds": "link 1: real scanner == reference scanner, all buffers <= 8 bytes"},
        {"name": "c05::scan_10", "group": "scan", "tier": "thorough", "bounds": "link 1 at 10 bytes"},
        {"name": "c05::scan_abs_24", "group": "scanstub", "tier": "quick", "bounds": "link 1 with stubbed CRC, buffers <= 24 bytes"},
        {"name": "c06::verdict_shape_10", "group": "main", "tier": "quick", "bounds": "link 2: verdict shape and stability under extension, all 10-byte buffers x nested slice pairs"},
        {"name": "c03::long", "group": "c03stub", "tier": "quick", "bounds": "link 2 for every L 0..=1023 (CRC stubbed)"},
        {"name": "c06::chunk_one_12", "group": "main", "tier": "quick", "bounds": "link 3: abstract streams of 12 positions, every L, one symbolic cut (inductive step)"},
        {"name": "c06::chunk_two_12", "group": "main", "tier": "quick", "bounds": "abstract streams of 12 positions, two symbolic cuts"},
        {"name": "c06::chunk_bytes_12", "group": "main", "tier": "thorough", "bounds": "abstract streams of 12 positions, one-byte chunks"},
        {"name": "c06::chunk_one_18", "group": "main", "tier": "thorough", "bounds": "abstract streams of 18 positions, one cut"},
        {"name": "c06::chunk_one_24", "group": "main", "tier": "thorough", "bounds": "abstract streams of 24 positions, one cut"},
        {"name": "c06::chunk_two_18", "group": "main", "tier": "thorough", "bounds": "abstract streams of 18 positions, two cuts"},
        {"name": "c06::real_small_7", "group": "main", "tier": "thorough", "bounds": "direct: real scanner on all 7-byte streams x every cut"},
    ]
    return {
        "harnesses": hs,
        "groups": {"main": {"features": ["c06"], "timeout_s": 2400},
                   "scan": {"features": ["c05"], "timeout_s": 2400},
                   "scanstub": {"features": ["c05"], "timeout_s": 2400, "kani_args": ["-Z", "stubbing"]},
                   "c03stub": {"features": ["c03"], "timeout_s": 900, "kani_args": ["-Z", "stubbing"]}},
        "level": "model_checking",
        "functions": ["rtcm_rs::next_msg_frame", "rtcm_rs::MessageFrame::new", "spec::ref_scan (reference scanner)", "c06::AbsStream::scan (reference scanner over the abstract verdict)"],
        "bounds": {"link1": "buffers <= 8/10 bytes real CRC, <= 24 bytes stubbed", "link2": "10-byte buffers real CRC; every L stubbed", "link3": "streams of 12 (quick) / 18, 24 (thorough) positions, every declared length 0..=1023, 1 cut / 2 cuts / byte-wise",
                   "direct": "7-byte streams on the real scanner"},
        "outside": ["the composition of the three links is a written argument (DESIGN.md C06), each link is a solver verdict", "more than two cuts on streams > 12 positions (covered by the one-cut lemma as inductive step: the only protocol state is the start index)"],
        "assumptions": ["caller protocol: after each call the caller drops `consumed` bytes and calls again while a frame was returned; new data is appended"],
        "samples": [{"harness": "c06::chunk_one_12", "symbolic": {"is_d3[12]": "bool", "L[12]": "0..=1023", "match[12]": "bool", "len": "0..=12", "cut": "0..=len"},
                     "asserts": "frames (offset,L) and final start index after draining [..cut] then [..len] equal one-shot draining of [..len]"}],
        "explanation": "Transitivity: real scanner == reference scanner (solver), real verdict has the abstract shape (solver), reference scanner on abstract verdict is chunk independent (solver).",
    }
