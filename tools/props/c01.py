"""C01 — encode/decode normal form (engine K, structure layer; field layer is C07/C08)."""
import gen
import msggen
from props.c09 import msm_any

QUICK = ["msg1005", "msg1006", "msg1004", "msg1012", "msg1013", "msg1017", "msg1023", "msg1033", "msg1029", "msg1057", "msg1059", "msg1065",
         "msg1230", "msg1300"]
QUICK_MSM = ["msg1074", "msg1087"]

HARNESS = """#[kani::proof]
#[kani::unwind(%(unw)d)]
%(stub)spub fn %(name)s() {
    use rtcm_rs::verif_hooks::codec::%(mod)s as c;
    let m = %(expr)s;
    roundtrip(%(bytes)d, %(number)d, &m, c::encode, c::decode, %(strict)s);
}
"""


def generate(T, tier):
    G = msggen.MsgGen(T)
    code = ["use crate::c01::roundtrip;", ""]
    hs = []
    for m in T.messages:
        mod = m["module"]
        cap = G.max_cap(mod)
        stub = "#[kani::stub(core::str::from_utf8, crate::util::from_utf8_ref)]\n" if mod == "msg1029" else ""
        if G.is_msm(mod):
            seg = [T.frags[s] for _, s, _ in T.frags[mod]["fields"] if T.classify(s) == "msm_data_seg_frag"][0]
            tab = T.msm[seg["gnss"]]
            sats = [40, 3]
            sigs = tab[:2] if len(tab) >= 2 else tab[:1]
            # caller order deliberately not sorted: (40,s1), (3,s0), (3,s1) [,(40,s0) missing]
            cells = [(40, sigs[-1][1], sigs[-1][2]), (3, sigs[0][1], sigs[0][2])]
            if len(sigs) > 1:
                cells.append((3, sigs[-1][1], sigs[-1][2]))
            name = "%s_s2" % mod
            code.append(HARNESS % {"unw": 66, "stub": "", "name": name, "mod": mod, "expr": msm_any(G, mod, 2, len(cells), "cand", (sats, cells)),
                                   "bytes": 200, "number": m["number"], "strict": "true"})
            hs.append({"name": "c01gen::%s" % name, "group": "msm", "tier": "thorough",
                       "bounds": "%s: satellites {40,3} x signals %s listed out of order, every integer field symbolic, floats from boundary candidates" % (mod, [s[0] for s in sigs])})
            continue
        ns = [0] if not G.has_var(mod) else [0, 1, 2]
        for n in ns:
            w = G.width(mod, n)
            nbytes = (12 + w + 7) // 8 + 2
            name = "%s_n%d" % (mod, n)
            unw = max(12, min(cap, 64) + 2, nbytes + 2)
            code.append(HARNESS % {"unw": unw, "stub": stub, "name": name, "mod": mod, "expr": G.any_expr(mod, n, "cand"), "bytes": nbytes,
                                   "number": m["number"], "strict": "true"})
            # measured green in < 8 min each (the other types take 20-30 min or exceed 12 GB: thorough tier)
            q = (mod, n) in (("msg1005", 0), ("msg1006", 0), ("msg1013", 2), ("msg1017", 2))
            grp = "stub" if mod == "msg1029" else ("big" if cap >= 390 else "main")
            hs.append({"name": "c01gen::%s" % name, "group": grp, "tier": "quick" if q else "thorough",
                       "bounds": "%s with every list/string at %d elements: integers over their full type, floats from {0, +-res, range ends, just outside, 1.5res, NaN, +inf, None}" % (mod, n)})
    gen.write_gen("c01_list.rs", "\n".join(code))
    return {
        "harnesses": hs,
        "groups": {"main": {"features": ["c01"], "est_gb": 6, "mem_gb": 16, "timeout_s": 3000},
                   "msm": {"features": ["c01"], "est_gb": 6, "timeout_s": 3000},
                   "big": {"features": ["c01"], "est_gb": 10, "timeout_s": 3000, "unwindset": [["try_from_fn_erased", 392]]},
                   "stub": {"features": ["c01"], "timeout_s": 2400, "unwindset": [["try_from_fn_erased", 392]], "kani_args": ["-Z", "stubbing"]}},
        "level": "model_checking",
        "functions": ["msgNNNN::{encode,decode} for all %d message types and every fragment/field codec they call" % len(T.messages)],
        "bounds": {"message_first": "m symbolic (ints full range, floats from boundary candidates), F = encode(m) accepted => decode(F) = Ok(m1) consuming exactly the written bits, encode(m1) == F bit for bit, decode(encode(m1)) == m1",
                   "lists": "0, 1, 2 elements; MSM: 2 satellites x 2 signals in unsorted caller order",
                   "quick": "%d + %d representative types, thorough all %d" % (len(QUICK), len(QUICK_MSM), len(T.messages))},
        "outside": ["arbitrary decimal floats inside a whole message (per-field: C08/C11)", "lists longer than 2 (C15)", "typed-variant/number mapping and error->Corrupt (C14)",
                    "hostile-frame layer for MSM/1059/1065 is covered by C10/C16 decode-side harnesses"],
        "assumptions": ["msg1029: text restricted to ASCII characters here (multi-byte text: C17); core::str::from_utf8 stubbed by the reference validator",
                        "1059/1065: one entry per satellite with recognised, distinct signals (the statement's precondition)"],
        "samples": [{"harness": "c01gen::msg1004_n2", "symbolic": {"ints": "full u8/u16/u32 ranges", "floats": "candidate selector per field"},
                     "asserts": "encode ok => decode ok & cursor equal; re-encode byte-identical; second decode equal"}],
        "explanation": "Structure layer of the normal-form property decided per message type by CBMC; combined with C07 (bit channel) and C08 (per-field losslessness on all patterns).",
    }
