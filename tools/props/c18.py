"""C18 — signal identifier tables (engine K on msm_mappings::<gnss>::{to_id,to_sig,SigId,Ord})."""

GNSS = ["gps", "glo", "gal", "sbas", "qzss", "bds", "navic"]


def generate(T, tier):
    hs = []
    for g in GNSS:
        if g not in T.msm:
            raise Exception("constellation %s missing from msm_mappings.rs" % g)
        for sub in ("id_to_sig", "sig_to_id", "bijection", "order"):
            hs.append({"name": "c18::%s::%s" % (g, sub), "group": "main", "tier": "quick",
                       "bounds": "all u8 ids / all (u8 band, char attribute - every Unicode scalar value) / all pairs and triples of descriptors"})
    extra = set(T.msm) - set(GNSS)
    if extra:
        raise Exception("constellation(s) %s in msm_mappings.rs have no reference table in spec.rs" % extra)
    return {
        "harnesses": hs,
        "groups": {"main": {"features": ["c18"], "timeout_s": 900}},
        "level": "model_checking",
        "functions": ["rtcm_rs::msg::msm_mappings::{gps,glo,gal,sbas,qzss,bds,navic}::{to_id,to_sig}", "SigId::{new,band,attribute,is_valid}", "<SigId as Ord>::cmp"],
        "bounds": {"ids": "all 256", "descriptors": "all 256 bands x all char values", "order": "all triples of descriptors", "exhaustive_within_types": True},
        "outside": ["partial_cmp (returns None for unrecognised descriptors while cmp orders them; the property is about cmp)"],
        "assumptions": ["reference tables in kani/src/spec.rs typed in from the RTCM 10403.3 MSM signal tables"],
        "samples": [{"harness": "c18::gps::order", "symbolic": {"a,b,c": "SigId(any u8, any char)"},
                     "asserts": "cmp Equal <-> ==; antisymmetric; transitive; both recognised -> order of table ids; recognised < unrecognised"}],
        "explanation": "Loop-free table code decided over the complete input types (u8, char) by the solver.",
    }
