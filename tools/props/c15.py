"""C15 — lists of every admissible length; counts and capacities agree (engine K, real codecs)."""
import gen
import msggen

QUICK = ["msg1013", "msg1017", "msg1057", "msg1060", "msg1033", "msg1008", "msg1007"]


class Lay:
    """walk a message layout with every list/string at n elements; collects count fields"""

    def __init__(self, G, n):
        self.G, self.T, self.n = G, G.T, n
        self.off = 12
        self.counts = []   # (bit offset, width, path, cap)
        self.lists = []    # (path expr, kind, elem frag, cap)

    def walk(self, fid, path):
        T, n = self.T, self.n
        k = T.classify(fid)
        if k == "df":
            self.off += T.field[fid]["len"]
        elif k == "str":
            s = T.str[fid]
            self.counts.append((self.off, s["len_bits"], path, T.caps[s["cap"]]))
            self.lists.append((path, "str", None, T.caps[s["cap"]]))
            self.off += s["len_bits"] + 8 * n
        elif k == "special":
            raise msggen.GenError("special")
        else:
            fr = T.frags[fid]
            if k == "msg":
                for name, sub, _ in fr["fields"]:
                    self.walk(sub, "%s.%s" % (path, name))
            elif k == "msg_len_middle":
                for name, sub, _ in fr["fields1"]:
                    self.walk(sub, "%s.%s" % (path, name))
                vec = T.frags[fr["vec_field"][1]]
                cap = T.caps[vec["cap"]]
                self.counts.append((self.off, T.field[fr["len_field"]]["len"], "%s.%s" % (path, fr["vec_field"][0]), cap))
                self.off += T.field[fr["len_field"]]["len"]
                for name, sub, _ in fr["fields2"]:
                    self.walk(sub, "%s.%s" % (path, name))
                self.lists.append(("%s.%s" % (path, fr["vec_field"][0]), "vec", vec["frag_id"], cap))
                for i in range(n):
                    self.walk(vec["frag_id"], "%s.%s[%d]" % (path, fr["vec_field"][0], i))
            elif k == "frag_vec_with_len":
                cap = T.caps[fr["cap"]]
                self.counts.append((self.off, fr["len_bits"], path, cap))
                self.off += fr["len_bits"]
                self.lists.append((path, "vec", fr["frag_id"], cap))
                for i in range(n):
                    self.walk(fr["frag_id"], "%s[%d]" % (path, i))
            elif k == "frag_grid16p":
                for i in range(16):
                    self.walk(fr["frag_id"], "%s[%d]" % (path, i))
            else:
                raise msggen.GenError(k)


def tag_of(T, elem):
    fr = T.frags[elem]
    if fr["macro"] != "msg":
        return None
    for name, leaf, _ in fr["fields"]:
        if leaf in T.field:
            f = T.field[leaf]
            if not f["is_float"] and not f["optional"] and not f["bias_src"] and not f["res_src"] and f["len"] >= 3 and f["dt"] in ("u8", "u16", "u32"):
                return name, f
    return None


def build_expr(G, mod, n):
    """Rust statements building `m` with every list at n tagged default elements; returns (code, tagchecks)"""
    T = G.T
    lay = Lay(G, n)
    lay.walk(mod, "m")
    code = ["let mut m = %s::default();" % G.elem_type(mod)]
    checks = []
    ti = 0
    for path, kind, elem, cap in lay.lists:
        nn = min(n, cap)
        if kind == "str":
            for i in range(nn):
                code.append("let t%d: u8 = kani::any(); kani::assume(t%d != 0); %s.push(t%d);" % (ti, ti, path, ti))
                checks.append("assert!(*m1%s.iter().nth(%d).unwrap() == t%d);" % (path[1:], i, ti))
                ti += 1
            checks.append("assert!(m1%s.len() == %d);" % (path[1:], nn))
        else:
            tg = tag_of(T, elem)
            et = G.elem_type(elem)
            for i in range(nn):
                if tg:
                    mask = (1 << tg[1]["len"]) - 1
                    code.append("{ let mut e = %s::default(); let t: %s = kani::any(); e.%s = t & %d; %s.push(e); }" % (et, tg[1]["dt"], tg[0], mask, path))
                else:
                    code.append("%s.push(%s::default());" % (path, et))
            checks.append("assert!(m1%s.len() == %d);" % (path[1:], nn))
    return lay, code, checks


def generate(T, tier):
    G = msggen.MsgGen(T)
    code = ["use crate::util::*;", ""]
    hs = []
    types = []
    for m in T.messages:
        mod = m["module"]
        if G.is_msm(mod) or not G.has_var(mod):
            continue
        try:
            lay = Lay(G, 0)
            lay.walk(mod, "m")
        except msggen.GenError:
            continue   # 1029/1059/1065/1230: C17 / C16
        types.append((m, lay))
    for m, lay0 in types:
        mod = m["module"]
        caps = sorted(set(c[3] for c in lay0.counts))
        cap = min(caps)            # all lists of a message at the same n: bounded by the smallest capacity
        q = mod in QUICK
        ns = list(range(0, cap + 1))
        if not q:
            ns = sorted(set([0, 1, 2, cap - 1, cap]) & set(ns))
        for n in ns:
            if tier == "quick" and not (q and n in (0, 1)):
                continue
            lay, build, checks = build_expr(G, mod, n)
            total = lay.off
            nbytes = (total + 7) // 8
            if nbytes > 1023:
                continue
            cnt_checks = ["assert!(get_bits(&buf, %d, %d) == %d);" % (off, w, min(n, c)) for off, w, _, c in lay.counts]
            name = "%s_n%d" % (mod, n)
            unw = max(12, min(G.max_cap(mod), 64) + 2, nbytes + 2)
            code.append("""#[kani::proof]
#[kani::unwind(%(unw)d)]
pub fn %(name)s() {
    use rtcm_rs::verif_hooks::codec::%(mod)s as c;
    %(build)s
    let mut buf = [0u8; %(nbytes)d];
    let off = {
        let mut asm = Assembler::new(&mut buf, 0);
        assert!(asm.put::<U16>(%(number)d, 12).is_ok());
        assert!(c::encode(&mut asm, &m).is_ok());
        asm.offset()
    };
    // fits the payload limit; the wire size is header + n elements; count fields equal n
    assert!(off == %(total)d && off <= 1023 * 8);
    %(cnt)s
    let mut par = Parser::new(&buf, 12);
    let m1 = match c::decode(&mut par) {
        Ok(x) => x,
        Err(_) => {
            assert!(false);
            return;
        }
    };
    assert!(par.offset() == off);
    %(checks)s
    assert!(m1 == m);
}
""" % {"unw": unw, "name": name, "mod": mod, "build": "\n    ".join(build), "nbytes": nbytes, "number": m["number"], "total": total,
       "cnt": "\n    ".join(cnt_checks), "checks": "\n    ".join(checks)})
            tq = q and n in (0, 1)   # at-capacity runs need > 12 GB each: thorough tier
            hs.append({"name": "c15gen::%s" % name, "group": "main", "tier": "quick" if tq else "thorough",
                       "bounds": "%s with every list/string at %d elements (capacity %d): default elements carrying a symbolic tag" % (mod, n, cap)})
        # over-capacity counts and truncation
        lay2, _, _ = build_expr(G, mod, 2)
        nb2 = (lay2.off + 7) // 8
        import props.c02 as c02
        for ci, (off, w, path, c) in enumerate(lay0.counts):
            if (1 << w) - 1 > c:
                for val in sorted(set([c + 1, (1 << w) - 1])):
                    name = "%s_over%d_%d" % (mod, ci, val)
                    nb = (lay0.off + 7) // 8 + c + 8
                    # this count = val (above capacity), every other count 0; the bytes holding count
                    # fields are constants so that control flow is concrete (a symbolic count made the
                    # harness hang on a seeded change that clamps the count instead of rejecting it)
                    patches = [(o2, w2, val if i2 == ci else 0) for i2, (o2, w2, _, _) in enumerate(lay0.counts)]
                    code.append("""#[kani::proof]
#[kani::unwind(%(unw)d)]
pub fn %(name)s() {
    use rtcm_rs::verif_hooks::codec::%(mod)s as c;
    let mut payload: [u8; %(nb)d] = kani::any();
    %(patch)s
    let mut par = Parser::new(&payload, 12);
    assert!(c::decode(&mut par).is_err());
}
""" % {"unw": max(12, min(G.max_cap(mod), 64) + 2), "name": name, "mod": mod, "nb": nb, "patch": c02.concrete_bytes(patches, nb)})
                    # quick: the LAST count field of the message (a change that accepts the count then meets
                    # only fixed-width fields; an earlier string would make the following counters symbolic
                    # on such a change and the run hangs instead of failing)
                    last_ci = max(i3 for i3, (_, w3, _, c3) in enumerate(lay0.counts) if (1 << w3) - 1 > c3)
                    hs.append({"name": "c15gen::%s" % name, "group": "main", "tier": "quick" if (q and val == c + 1 and ci == last_ci) else "thorough",
                               "bounds": "%s: count field %s (%d bits) = %d > capacity %d, other counts 0, %d-byte payload otherwise symbolic => Err (Corrupt)" % (mod, path, w, val, c, nb)})
        name = "%s_trunc" % mod
        lay2b, build2, _ = build_expr(G, mod, 2)
        code.append("""#[kani::proof]
#[kani::unwind(%(unw)d)]
pub fn %(name)s() {
    use rtcm_rs::verif_hooks::codec::%(mod)s as c;
    %(build)s
    let mut buf = [0u8; %(nbytes)d];
    {
        let mut asm = Assembler::new(&mut buf, 0);
        assert!(asm.put::<U16>(%(number)d, 12).is_ok());
        assert!(c::encode(&mut asm, &m).is_ok());
    }
    // body shorter than its counts imply: every cut that removes at least one needed bit
    // (a concrete loop over the cut position: a symbolic slice length makes every parse loop
    // unwind to the global bound)
    let mut t = 2usize;
    while t < %(needed)d {
        let mut par = Parser::new(&buf[..t], 12);
        assert!(c::decode(&mut par).is_err());
        t += 1;
    }
}
""" % {"unw": max(12, min(G.max_cap(mod), 64) + 2, nb2 + 2), "name": name, "mod": mod, "build": "\n    ".join(build2), "nbytes": nb2, "number": m["number"], "needed": nb2})
        hs.append({"name": "c15gen::%s" % name, "group": "trunc", "tier": "thorough",
                   "bounds": "%s with 2 elements per list, payload cut at every byte length 2..%d => Err" % (mod, nb2 - 1)})
    gen.write_gen("c15_list.rs", "\n".join(code))
    return {
        "harnesses": hs,
        "groups": {"main": {"features": ["c15"], "est_gb": 8, "mem_gb": 20, "timeout_s": 3000, "unwindset": [["try_from_fn_erased", 392]]}, "trunc": {"features": ["c15"], "timeout_s": 3000, "unwindset": [["try_from_fn_erased", 392]]}},
        "level": "model_checking",
        "functions": ["msg::{frag_vec, frag_vec_with_len, msg_len_middle} generated encode/decode for %d list-bearing message types" % len(types), "df_88591_string_with_len encode/decode", "DataVec::{push,len}"],
        "bounds": {"counts": "every n in 0..=capacity (thorough; quick n in {0,1,cap} for %d types), one harness per (type, n) with the real element codec" % len(QUICK),
                   "elements": "default elements with one symbolic integer tag each (order/identity), strings: symbolic non-zero bytes",
                   "over_capacity": "count = capacity+1 and = field maximum for every count field whose width admits values above capacity (concrete count, symbolic rest)", "truncation": "2 elements per list, every byte cut"},
        "outside": ["element contents at full symbolic generality in long lists (C01 covers <= 2 elements, C08 every field)", "truncation points of full-capacity frames",
                    "MSM and 1059/1065/1230/1029 structures (C10, C16, C17)"],
        "assumptions": ["messages with several lists use the same n for all of them, bounded by the smallest capacity"],
        "samples": [{"harness": "c15gen::msg1004_n31", "symbolic": {"tags": "31 x u8 (6-bit satellite ids)"},
                     "asserts": "encode ok, wire size == 64+31*125 bits <= 8184, 5-bit count == 31, decode returns 31 elements with the tags in order, m1 == m"}],
        "explanation": "Each (type, n) is a separate bounded model checking run with concrete control flow and symbolic element identities.",
    }
