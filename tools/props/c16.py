"""C16 — SSR code-bias and GLONASS bias lists (engine K on the three hand-written codecs)."""
import gen


def capacity_payload(satbits, nsat, per, sig_id):
    """bit string of a 1059/1065 payload with nsat satellites x per entries; returns (bytes template, mask of symbolic bias bits)"""
    bits = []
    mask = []

    def put(v, n, sym=False):
        for i in range(n):
            bits.append((v >> (n - 1 - i)) & 1)
            mask.append(1 if sym else 0)
    put(nsat, 6)
    for s in range(nsat):
        put(s, satbits)
        put(per, 5)
        for _ in range(per):
            put(sig_id, 5)
            put(0, 14, True)
    while len(bits) % 8:
        bits.append(0)
        mask.append(0)
    tb = [int("".join(map(str, bits[i:i + 8])), 2) for i in range(0, len(bits), 8)]
    mb = [int("".join(map(str, mask[i:i + 8])), 2) for i in range(0, len(mask), 8)]
    return tb, mb


def generate(T, tier):
    code = []
    hs = []
    for mod, sb in (("gps1059", 6), ("glo1065", 5)):
        num = mod[3:]
        for inst, t in (("sat0", "thorough"), ("sat1", "thorough"), ("sat_mid", "thorough"), ("sat_max", "thorough"), ("sat_over", "thorough"), ("sat_255", "thorough")):
            if num == "1065" and inst != "sat_max":
                t = "thorough"
            hs.append({"name": "c16::%s::one_%s" % (mod, inst), "group": "main", "tier": t,
                       "bounds": "%s: one entry on a concrete satellite id (%s), first/last recognised signal, every f32 bias bit pattern" % (num, inst)})
        hs.append({"name": "c16::%s::pattern" % mod, "group": "main", "tier": "thorough", "bounds": "%s: all 2^14 bias patterns decode and re-encode to themselves" % num})
        hs.append({"name": "c16::%s::most_satellites" % mod, "group": "wide", "tier": "thorough", "bounds": "%s: one entry on each satellite 0..=max-1: encodes, and all entries (satellite 0 included) come back" % num})
        hs.append({"name": "c16::%s::all_satellites" % mod, "group": "wide", "tier": "thorough", "bounds": "%s: one entry on every satellite id of the range (count-field boundary): Err or all entries come back" % num})
        sig_id = T.ssr[num][0][0]
        nsat = 13
        tb, mb = capacity_payload(sb, nsat, 31, sig_id)
        n = len(tb)
        code.append("""pub const CAP_T_%(num)s: [u8; %(n)d] = [%(tb)s];
pub const CAP_M_%(num)s: [u8; %(n)d] = [%(mb)s];
/// hostile frame: %(nsat)d satellites x 31 recognised entries = %(tot)d entries > capacity 390, all bias bits symbolic
#[kani::proof]
#[kani::unwind(%(unw)d)]
pub fn capacity_%(num)s() {
    use rtcm_rs::verif_hooks::dfs::df_msg%(num)s_biases as c;
    let sym: [u8; %(n)d] = kani::any();
    let mut payload = [0u8; %(n)d];
    let mut i = 0;
    while i < %(n)d {
        payload[i] = CAP_T_%(num)s[i] | (sym[i] & CAP_M_%(num)s[i]);
        i += 1;
    }
    let mut par = Parser::new(&payload, 0);
    match c::decode(&mut par) {
        Ok(d) => assert!(d.len() <= 390),
        Err(_) => {}
    }
}
""" % {"num": num, "n": n, "tb": ", ".join(map(str, tb)), "mb": ", ".join(map(str, mb)), "nsat": nsat, "tot": nsat * 31, "unw": n + 2})
        hs.append({"name": "c16::capacity_%s" % num, "group": "cap", "tier": "thorough",
                   "bounds": "%s decode of a %d-byte payload announcing %d entries (capacity 390), bias bits symbolic: no panic, never more than 390 entries" % (num, n, nsat * 31)})
    for g in ("g1059_737", "g1059_377", "g1059_773", "g1059_555", "g1059_desc", "g1059_adj", "g1065_737", "g1065_377", "g1065_desc", "g1065_555"):
        hs.append({"name": "c16::%s" % g, "group": "main", "tier": "thorough",
                   "bounds": "three entries on satellites %s, three distinct concrete signals, symbolic grid biases: decoded == stable regrouping by ascending satellite" % g.split("_")[1]})
    hs.append({"name": "c16::ssr_table_known", "group": "main", "tier": "thorough", "bounds": "1059: each of the 12 reference signals is written with its reference number"})
    hs.append({"name": "c16::ssr_table_unknown", "group": "main", "tier": "thorough", "bounds": "1059: every (u8 band, char attribute) outside the reference table is neither written nor counted"})
    for inst, t in (("empty", "quick"), ("3210", "quick"), ("0123", "thorough"), ("2031", "thorough"), ("30", "thorough"), ("1", "thorough")):
        hs.append({"name": "c16::glo_1230_%s" % inst, "group": "main", "tier": t, "bounds": "1230: entries for signals in caller order %s (distinct, recognised), symbolic 16-bit grid biases" % inst})
    hs.append({"name": "c16::glo_1230_unknown", "group": "main", "tier": "quick", "bounds": "1230: any descriptor: accepted iff recognised"})
    gen.write_gen("c16_list.rs", "use crate::util::*;\n" + "\n".join(code))
    return {
        "harnesses": hs,
        "groups": {"main": {"features": ["c16"], "est_gb": 7, "timeout_s": 2400, "unwindset": [["try_from_fn_erased", 392]]}, "wide": {"features": ["c16"], "est_gb": 8, "timeout_s": 3000, "unwindset": [["try_from_fn_erased", 392]]}, "cap": {"features": ["c16"], "est_gb": 10, "timeout_s": 3300, "unwindset": [["try_from_fn_erased", 392]]}},
        "level": "model_checking",
        "functions": ["df::dfs::df_msg1059_biases::{encode,decode}", "df::dfs::df_msg1065_biases::{encode,decode}", "df::dfs::df_msg1230_biases::{encode,decode}"],
        "bounds": {"one": "single entry: satellite id from {0, 1, mid, max, max+1, 255}, signal and bias symbolic", "group": "3 entries on 6 (1059) / 4 (1065) concrete satellite arrangements, signals and biases symbolic",
                   "count_wrap": "64 satellites (1059) / 32 (1065)", "capacity": "13 x 31 = 403 announced entries", "1230": "six concrete subsets/orders of the 4 signals with symbolic biases"},
        "outside": ["more than 3 entries with symbolic signals in one query; more than 31 entries per satellite (needs duplicate signals, outside the property's precondition)"],
        "assumptions": ["SSR signal tables in spec.rs typed from RTCM 10403.3"],
        "samples": [{"harness": "c16::gps1059::one_sat_max", "symbolic": {"sat": "63", "signal": "index into reference table", "bias": "all f32 bits"},
                     "asserts": "Err iff sat > 63; else wire fields, decode returns exactly that entry, bias nearest grid value for in-range input, re-encode identical"}],
        "explanation": "The hand-written list codecs are symbolically executed on small lists with symbolic content plus boundary families for the count fields and the capacity.",
    }
