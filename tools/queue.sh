#!/bin/sh
# usage: tools/queue.sh <tier> ID [ID...]  -- runs checks one after another, logs under work/queue/
tier=$1; shift
mkdir -p work/queue
for id in "$@"; do
  start=$(date +%s)
  ./check $id --tier $tier > work/queue/$id.$tier.log 2>&1
  rc=$?
  end=$(date +%s)
  echo "$(date +%H:%M:%S) $id $tier rc=$rc wall=$((end-start))s $(tail -n 1 work/queue/$id.$tier.log | cut -c1-200)" >> work/queue/summary.txt
done
