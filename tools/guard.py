"""Process guard shared by the runner and the replay step: memory watchdog for CBMC children and
clean-up of child process groups when the check itself is terminated."""
import os
import re
import subprocess

CHILD_PGIDS = []


def _kill_children(*_a):
    for pg in list(CHILD_PGIDS):
        try:
            os.killpg(pg, 9)
        except Exception:
            pass
    if _a:
        os._exit(2)


import atexit
import signal
atexit.register(_kill_children)
signal.signal(signal.SIGTERM, _kill_children)
signal.signal(signal.SIGINT, _kill_children)


def run_guarded(cmd, cwd, env, out_log, mem_gb=12, timeout_s=None):
    """Run a cargo-kani command with the memory guard. CBMC is memory-bound here (no swap). A
    `ulimit -v` on cargo-kani would also hit kani-compiler (it reserves a lot of address space), so
    a watchdog kills any of OUR cbmc processes whose resident set passes the cap; Kani then reports
    no result for that harness and it is classified inconclusive. When the machine's MemAvailable
    drops under 3 GB the largest of our solver processes is given up before the kernel's OOM killer
    picks a victim at random (it has taken cargo-kani itself). Returns the exit code (None on timeout)."""
    import threading
    cap_kb = mem_gb * 1024 * 1024
    stop = threading.Event()

    def watchdog(pgid_holder):
        while not stop.wait(5.0):
            try:
                out = subprocess.run(["ps", "-eo", "pid,pgid,rss,comm"], capture_output=True, text=True).stdout
            except Exception:
                continue
            mine = []
            for line in out.split("\n")[1:]:
                f = line.split()
                if len(f) == 4 and f[3].startswith("cbmc") and pgid_holder and f[1] == str(pgid_holder[0]):
                    mine.append((int(f[2]), int(f[0])))
                    if int(f[2]) > cap_kb:
                        try:
                            os.kill(int(f[0]), 9)
                        except Exception:
                            pass
            try:
                avail = int(re.search(r"MemAvailable:\s+(\d+)", open("/proc/meminfo").read()).group(1))
            except Exception:
                avail = None
            if avail is not None and avail < 3 * 1024 * 1024 and mine:
                rss, pid_ = max(mine)
                try:
                    os.kill(pid_, 9)
                except Exception:
                    pass

    holder = []
    with open(out_log, "w") as lf:
        proc = subprocess.Popen(cmd, cwd=cwd, env=env, stdout=lf, stderr=subprocess.STDOUT, start_new_session=True)
        holder.append(os.getpgid(proc.pid))
        CHILD_PGIDS.append(holder[0])
        th = threading.Thread(target=watchdog, args=(holder,), daemon=True)
        th.start()
        try:
            proc.wait(timeout=timeout_s)
            rc = proc.returncode
        except subprocess.TimeoutExpired:
            try:
                os.killpg(holder[0], 9)
            except Exception:
                pass
            proc.wait()
            rc = None
        stop.set()
    return rc


