"""Harness generator: /repo's current tables -> kani/src/gen/*.rs + the plan the runner executes.

generate(pid, tier) returns
  {"harnesses": [{"name", "group", "tier", "bounds", ...}], "groups": {g: {"features", "timeout_s", ...}},
   "smt": {...} (engine M work, optional), "functions", "bounds", "outside", "assumptions", "samples", "level"}
"""
import json
import os
import re
import sys

ROOT = os.path.dirname(os.path.dirname(os.path.abspath(__file__)))
sys.path.insert(0, os.path.join(ROOT, "tools"))
import repo_tables  # noqa: E402

GEN_DIR = os.path.join(ROOT, "kani", "src", "gen")


def write_gen(name, content):
    os.makedirs(GEN_DIR, exist_ok=True)
    p = os.path.join(GEN_DIR, name)
    old = open(p).read() if os.path.exists(p) else None
    if old != content:
        with open(p, "w") as f:
            f.write(content)


def tiered(hs, tier):
    if tier == "thorough":
        return hs
    return [h for h in hs if h["tier"] == "quick"]


_T = None


def tables():
    global _T
    if _T is None:
        _T = repo_tables.Tables()
    return _T


def generate(pid, tier):
    import importlib
    mod = importlib.import_module("props.%s" % pid.lower())
    plan = mod.generate(tables(), tier)
    plan["harnesses"] = tiered(plan.get("harnesses", []), tier)
    with open(os.path.join(GEN_DIR, "plan_%s.json" % pid), "w") as f:
        json.dump(plan, f, indent=1, default=str)
    return plan


if __name__ == "__main__":
    p = generate(sys.argv[1].upper(), sys.argv[2] if len(sys.argv) > 2 else "quick")
    print(len(p.get("harnesses", [])), "harnesses")
