"""Parse the tables the harness generator needs out of /repo's CURRENT working tree.

Nothing here is cached: every check run re-reads the sources, so a field or message that is
added, removed or edited in /repo changes the generated harnesses.  Anything the parser cannot
classify raises TableError (the runner turns that into exit 2, never into a silent skip).
"""
import os
import re
from fractions import Fraction

REPO = os.environ.get("VERIF_REPO", "/repo")


class TableError(Exception):
    pass


def _strip_comments(src):
    out = []
    for line in src.split("\n"):
        s = line.lstrip()
        if s.startswith("//"):
            out.append("")
        else:
            # trailing // comments (not inside strings in these files)
            i = line.find("//")
            out.append(line if i < 0 else line[:i])
    txt = "\n".join(out)
    return re.sub(r"/\*.*?\*/", "", txt, flags=re.S)


def read(rel):
    with open(os.path.join(REPO, rel)) as f:
        return f.read()


# --------------------------------------------------------------------------------------------
# data fields
# --------------------------------------------------------------------------------------------

CARRIER = {
    "U8": ("u", 8, "u8"), "U16": ("u", 16, "u16"), "U32": ("u", 32, "u32"), "U64": ("u", 64, "u64"),
    "I8": ("s", 8, "i8"), "I16": ("s", 16, "i16"), "I32": ("s", 32, "i32"), "I64": ("s", 64, "i64"),
    "SM8": ("sm", 8, "i8"), "SM16": ("sm", 16, "i16"), "SM32": ("sm", 32, "i32"), "SM64": ("sm", 64, "i64"),
}


def _eval_res(expr):
    """Exact rational value of a resolution literal expression (products/quotients of literals)."""
    e = expr.replace("_", "").strip()
    if not re.fullmatch(r"[0-9eE+\-\.\s\*/\(\)]+", e):
        raise TableError("resolution expression not understood: %r" % expr)
    toks = re.findall(r"\d+\.\d*(?:[eE][+-]?\d+)?|\d+(?:[eE][+-]?\d+)?|[\*/\(\)]", e)
    py = "".join(("Fraction('%s')" % t) if re.match(r"\d", t) else t for t in toks)
    return eval(py, {"Fraction": Fraction})


def _is_pow2(fr):
    n, d = fr.numerator, fr.denominator
    return n > 0 and (n & (n - 1)) == 0 and (d & (d - 1)) == 0


def parse_fields():
    src = _strip_comments(read("src/df/dfs.rs"))
    fields = []
    for m in re.finditer(r"\bdf!\s*\((.*?)\)\s*;", src, flags=re.S):
        body = m.group(1)
        kv = {}
        for part in re.finditer(r"(\w+)\s*:\s*([^,]+?)\s*,", body + ","):
            kv[part.group(1)] = part.group(2).strip()
        for req in ("id", "dt", "it", "len"):
            if req not in kv:
                raise TableError("df! without %s: %r" % (req, body))
        unknown = set(kv) - {"id", "dt", "it", "len", "res", "bias", "round", "cap", "inv", "ord"}
        if unknown:
            raise TableError("df! %s has unknown keys %s" % (kv["id"], unknown))
        if kv["it"] not in CARRIER:
            raise TableError("df! %s: carrier %s not supported" % (kv["id"], kv["it"]))
        kind, bits, vt = CARRIER[kv["it"]]
        f = {
            "id": kv["id"], "dt": kv["dt"], "it": kv["it"], "len": int(kv["len"]),
            "kind": kind, "carrier_bits": bits, "vt": vt,
            "res_src": kv.get("res"), "bias_src": kv.get("bias"),
            "round": kv.get("round") == "true", "cap": kv.get("cap"),
            "inv_src": kv.get("inv"), "optional": "inv" in kv,
        }
        if ("inv" in kv) == ("ord" in kv):
            raise TableError("df! %s: exactly one of inv/ord expected" % kv["id"])
        f["is_float"] = kv["dt"] in ("f32", "f64")
        if f["res_src"] is not None:
            f["res"] = _eval_res(f["res_src"])
            f["res_pow2"] = _is_pow2(f["res"])
        else:
            f["res"] = None
            f["res_pow2"] = True
        if f["inv_src"] is not None:
            f["inv"] = int(f["inv_src"].replace("_", ""), 0)
        else:
            f["inv"] = None
        if f["len"] < 1 or f["len"] > bits:
            raise TableError("df! %s: len %d does not fit carrier %s" % (f["id"], f["len"], kv["it"]))
        fields.append(f)
    if len(fields) < 250:
        raise TableError("only %d df! fields parsed" % len(fields))
    # string fields
    strs = []
    for m in re.finditer(r"\bdf_88591_string_with_len!\s*\((.*?)\)\s*;", src, flags=re.S):
        kv = dict((a, b.strip()) for a, b in re.findall(r"(\w+)\s*:\s*([^,]+?)\s*,", m.group(1) + ","))
        strs.append({"id": kv["id"], "cap": kv["cap"], "len_bits": int(kv["len_bits"])})
    special = re.findall(r"pub mod (df_msg\w+)\s*;", src)
    return fields, strs, special


def field_pattern_inv(f):
    """The wire pattern (unsigned, len bits) of the 'absent' literal."""
    if f["inv"] is None:
        return None
    return f["inv"] & ((1 << f["len"]) - 1)


# --------------------------------------------------------------------------------------------
# capacities, features, message table
# --------------------------------------------------------------------------------------------

def parse_caps():
    src = _strip_comments(read("src/msg/mod.rs"))
    return {k: int(v) for k, v in re.findall(r"pub const (\w+)\s*:\s*usize\s*=\s*(\d+)\s*;", src)}


def parse_features():
    src = read("Cargo.toml")
    m = re.search(r"all_msgs\s*=\s*\[(.*?)\]", src, flags=re.S)
    if not m:
        raise TableError("all_msgs feature list not found")
    nums = [int(x) for x in re.findall(r'"msg(\d+)"', m.group(1))]
    decl = [int(x) for x in re.findall(r"^msg(\d+)\s*=", src, flags=re.M)]
    return sorted(nums), sorted(decl)


def parse_message_table():
    src = _strip_comments(read("src/msg/message.rs"))
    m = re.search(r"\nmessage!\s*\((.*?)\)\s*;", src, flags=re.S)
    if not m:
        raise TableError("message! invocation not found")
    rows = re.findall(r'"(msg\d+)"\s*:\s*(\w+)\((\w+)\)\s*=\s*(\d+)', m.group(1))
    return [{"feature": a, "variant": b, "module": c, "number": int(d)} for a, b, c, d in rows]


# --------------------------------------------------------------------------------------------
# message layouts
# --------------------------------------------------------------------------------------------

def _parse_field_list(txt):
    out = []
    for m in re.finditer(r"\(\s*(\w+)\s*,\s*(\w+)\s*(?:,\s*([^)]+?))?\s*\)", txt):
        out.append((m.group(1), m.group(2), m.group(3)))
    return out


def _macro_calls(src, name):
    # balanced-paren scan
    res = []
    for m in re.finditer(r"\b%s\s*!\s*\(" % name, src):
        i = m.end()
        depth = 1
        while depth and i < len(src):
            c = src[i]
            if c == "(":
                depth += 1
            elif c == ")":
                depth -= 1
            i += 1
        res.append(src[m.end():i - 1])
    return res


def _kv_block(body, key):
    m = re.search(r"\b%s\s*:\s*\[(.*?)\]\s*," % key, body, flags=re.S)
    return m.group(1) if m else None


def _kv(body, key):
    m = re.search(r"\b%s\s*:\s*([^,\[\]]+?)\s*," % key, body)
    return m.group(1).strip() if m else None


def parse_fragments():
    """All macro-generated codec modules in src/msg/*.rs keyed by module id."""
    frags = {}
    mdir = os.path.join(REPO, "src/msg")
    for fn in sorted(os.listdir(mdir)):
        if not fn.endswith(".rs") or fn in ("mod.rs", "message.rs", "msm_mappings.rs"):
            continue
        src = _strip_comments(read("src/msg/" + fn))
        filemod = fn[:-3]
        for body in _macro_calls(src, "msg"):
            fid = _kv(body, "id")
            frags[fid] = {"macro": "msg", "id": fid, "file": filemod, "type_name": _kv(body, "type_name"),
                          "fields": _parse_field_list(_kv_block(body, "fields"))}
        for body in _macro_calls(src, "msg_len_middle"):
            fid = _kv(body, "id")
            m = re.search(r"vec_field\s*:\s*(\w+)\s*,\s*(\w+)\s*,", body)
            frags[fid] = {"macro": "msg_len_middle", "id": fid, "file": filemod, "type_name": _kv(body, "type_name"),
                          "fields1": _parse_field_list(_kv_block(body, "fields1")),
                          "len_field": _kv(body, "len_field"),
                          "fields2": _parse_field_list(_kv_block(body, "fields2")),
                          "vec_field": (m.group(1), m.group(2))}
        for body in _macro_calls(src, "frag_vec"):
            fid = _kv(body, "id")
            frags[fid] = {"macro": "frag_vec", "id": fid, "file": filemod, "frag_id": _kv(body, "frag_id"),
                          "cap": _kv(body, "cap_name")}
        for body in _macro_calls(src, "frag_vec_with_len"):
            fid = _kv(body, "id")
            frags[fid] = {"macro": "frag_vec_with_len", "id": fid, "file": filemod, "frag_id": _kv(body, "frag_id"),
                          "cap": _kv(body, "cap"), "len_bits": int(_kv(body, "len_bits"))}
        for body in _macro_calls(src, "frag_grid16p"):
            fid = _kv(body, "id")
            frags[fid] = {"macro": "frag_grid16p", "id": fid, "file": filemod, "frag_id": _kv(body, "frag_id")}
        for body in _macro_calls(src, "msm_sat_frag"):
            fid = _kv(body, "id")
            frags[fid] = {"macro": "msm_sat_frag", "id": fid, "file": filemod, "type_name": _kv(body, "type_name"),
                          "fields": _parse_field_list(_kv_block(body, "fields"))}
        for body in _macro_calls(src, "msm_sig_frag"):
            fid = _kv(body, "id")
            frags[fid] = {"macro": "msm_sig_frag", "id": fid, "file": filemod, "type_name": _kv(body, "type_name"),
                          "gnss": _kv(body, "gnss"), "fields": _parse_field_list(_kv_block(body, "fields"))}
        for body in _macro_calls(src, "msm_data_seg_frag"):
            fid = _kv(body, "id")
            frags[fid] = {"macro": "msm_data_seg_frag", "id": fid, "file": filemod, "type_name": _kv(body, "type_name"),
                          "gnss": _kv(body, "gnss"), "sat_id": _kv(body, "sat_id"), "sig_id": _kv(body, "sig_id")}
    return frags


def parse_msm_tables():
    src = _strip_comments(read("src/msg/msm_mappings.rs"))
    out = {}
    for body in _macro_calls(src, "msm_mappings"):
        g = _kv(body, "gnss")
        rows = re.findall(r"(\d+)\s*=>\s*(\d+)\s*\|\s*'(.)'", body)
        out[g] = [(int(a), int(b), c) for a, b, c in rows]
    return out


def parse_ssr_tables():
    out = {}
    for n in ("1059", "1065"):
        src = _strip_comments(read("src/df/dfs/df_msg%s_biases.rs" % n))
        body = _macro_calls(src, "sig_mappings")
        m = re.search(r"sig_mappings!\s*\[(.*?)\]\s*;", src, flags=re.S)
        rows = re.findall(r"(\d+)\s*=>\s*(\d+)\s*\|\s*'(.)'", m.group(1))
        out[n] = [(int(a), int(b), c) for a, b, c in rows]
    return out


class Tables:
    def __init__(self):
        self.fields, self.strs, self.special = parse_fields()
        self.field = {f["id"]: f for f in self.fields}
        self.str = {s["id"]: s for s in self.strs}
        self.caps = parse_caps()
        self.features, self.features_decl = parse_features()
        self.messages = parse_message_table()
        self.frags = parse_fragments()
        self.msm = parse_msm_tables()
        self.ssr = parse_ssr_tables()

    # ---- layout helpers -------------------------------------------------------------------
    def leaf_width(self, fid):
        """Fixed wire width in bits of a df leaf, or None if variable."""
        if fid in self.field:
            return self.field[fid]["len"]
        return None

    def frag_width(self, fid):
        """Fixed width of a fragment (sum of leaves) or None when it contains a variable part."""
        if fid in self.field:
            return self.field[fid]["len"]
        fr = self.frags.get(fid)
        if fr is None:
            return None
        if fr["macro"] == "msg":
            tot = 0
            for _, sub, _ in fr["fields"]:
                w = self.frag_width(sub)
                if w is None:
                    return None
                tot += w
            return tot
        if fr["macro"] == "frag_grid16p":
            w = self.frag_width(fr["frag_id"])
            return None if w is None else 16 * w
        return None

    def classify(self, fid):
        if fid in self.field:
            return "df"
        if fid in self.str:
            return "str"
        if fid in self.special:
            return "special"
        if fid in self.frags:
            return self.frags[fid]["macro"]
        raise TableError("fragment %s not classified" % fid)


if __name__ == "__main__":
    t = Tables()
    print(len(t.fields), "fields;", len(t.strs), "string fields;", t.special)
    print(len(t.messages), "messages;", len(t.frags), "fragments;", len(t.features), "features")
    import collections
    print(collections.Counter(f["macro"] for f in t.frags.values()))
    print(sum(1 for f in t.fields if not f["is_float"]), "int;",
          sum(1 for f in t.fields if f["is_float"] and f["res_pow2"]), "float pow2;",
          sum(1 for f in t.fields if f["is_float"] and not f["res_pow2"]), "float decimal")
    print(t.caps)
    print({k: len(v) for k, v in t.msm.items()}, {k: len(v) for k, v in t.ssr.items()})
    for m in t.messages[:3]:
        print(m, t.frags[m["module"]])
    # every message module resolves
    for m in t.messages:
        fr = t.frags[m["module"]]
        names = fr["fields"] if fr["macro"] == "msg" else fr["fields1"] + fr["fields2"]
        for _, sub, _ in names:
            t.classify(sub)
