#!/usr/bin/env python3
"""Writes MANIFEST.json from the per-property registry below (kept next to the code so the two do not drift)."""
import json
import os
import subprocess

ROOT = os.path.dirname(os.path.dirname(os.path.abspath(__file__)))

CHECKS = {}


def reg(pid, category, text, note, technique, design):
    CHECKS[pid] = {
        "property_id": pid,
        "quick_cmd": "./check %s --tier quick" % pid,
        "thorough_cmd": "./check %s --tier thorough" % pid,
        "evidence_file": "/verif/evidence/%s.json" % pid,
        "replay_cmd_template": "./check %s --replay {path}" % pid,
        "engine": "mirsmt" if technique.startswith("MIR") and "Kani" not in technique else ("kani+mirsmt" if "MIR" in technique else "kani"),
        "level_claimed": {"category": category, "text": text, "design_ref": design},
        "level_note": note,
        "technique": technique,
    }


BMC = "bounded model checking (Kani 0.68 / CBMC 6.11 symbolic execution of the compiled crate, CaDiCaL SAT verdict)"

MSMT = "MIR->SMT-LIB2 symbolic execution of the real functions (rustc -Zunpretty=mir of the current tree), z3 4.8.12 + cvc5 1.0 verdicts"

reg("C01", "model_checking",
    "Bounded, compositional: per message type, m symbolic (integers full range, floats from boundary candidates, lists 0..2 elements, MSM with 2 satellites x 2 signals in unsorted caller order): encode accepted => decode Ok consuming exactly the written bits, re-encode bit-identical, second decode equal. Field-level losslessness for ALL patterns is C08, the bit channel C07.",
    "Trusts Kani/CBMC; whole-message runs with arbitrary decimal floats are outside the bound (covered per field by C08/C11); dispatch/number mapping is C14.",
    BMC + " of msgNNNN::encode/decode round trips through the hook re-exports", "3/C01")
reg("C02", "model_checking",
    "Bounded: every decoder on every payload of a stated concrete length (all field bit patterns; list counts fixed per harness to 0,1,2 and to a value larger than the body; MSM satellite/signal/cell masks from eight concrete shapes incl. 64 and 72 cells (quick tier: the 72-cell shape for four types, the others thorough); 1059/1065 with recognised and unrecognised signal ids): no panic, no arithmetic overflow (dev profile with overflow checks = the stricter profile), floats finite, m == m.",
    "Trusts Kani/CBMC; counts above capacity are C15, the 391-entry container overflow C16, scanner termination C05, dispatch C14; msg1029 uses the from_utf8 reference stub.",
    BMC + " of every msgNNNN::decode on symbolic payloads; all Rust panic sites are solver-checked assertions", "3/C02")
reg("C03", "model_checking",
    "Bounded: every slice <= 12 (quick) / 16 (thorough) bytes decided against a bitwise CRC-24Q frame predicate; CRC byte step of the real crc_any object == 8 generator shifts over the complete 2^24 x 256 state space; every declared length 0..=1023 with the CRC arithmetic stubbed. Extension to all lengths is an induction argument (DESIGN.md C03), not a solver verdict.",
    "Trusts Kani's MIR->goto translation and CBMC; c03::long trusts the stub contract 'CRC is a function of the digested slice'; spec CRC typed from the property text (poly 0x1864CFB, init 0).",
    BMC + " of MessageFrame::new against an independent bitwise CRC-24Q specification; -Z stubbing for long frames", "3/C03")
reg("C04", "model_checking",
    "Direct and bounded: all valid frames of 8 and 10 (quick) / 12 bytes x all single-bit, double-bit and <=24-bit burst errors in reserved bits/payload/checksum are rejected and not delivered by the scanner. Any length: CRC step lemmas (linearity, parity, zero byte, augmentation, burst window) over the complete register state space; odd-weight and long-frame claims follow by a written induction.",
    "Trusts Kani/CBMC; the all-lengths extension is an argument over solver-proved lemmas; double-bit errors at byte distances up to 1028 use the spec register (equal to the real step by c03::crc_step).",
    BMC + " of MessageFrame::new/next_msg_frame on corrupted frames + CRC step lemmas on the real crc_any object", "3/C04")
reg("C05", "model_checking",
    "Bounded: real next_msg_frame == reference scanner on every buffer <= 8 (quick) / 10 bytes with the real CRC verdict, and on every buffer <= 24 / 48 bytes with the CRC stubbed by a per-call symbolic sequence (every declared length); MsgFrameIter == repeated reference scans on buffers <= 18 bytes.",
    "Trusts Kani/CBMC; the verdict oracle is the real MessageFrame::new (tied to the bitwise spec by C03); longer buffers by argument (scanner state is one index).",
    BMC + " of the scanner against a reference scanner written from the property text", "3/C05")
reg("C06", "model_checking",
    "By transitivity, each link a solver verdict: real scanner == reference scanner (C05 harnesses, run here); the real verdict has the abstract shape and is stable under extension (10-byte buffers; every L with stubbed CRC); the reference scanner over an abstract verdict is chunk independent for streams of 12 (quick) / 18, 24 positions with every declared length, one cut (inductive step), two cuts, byte-wise; plus the direct real-code form on 7-byte streams (thorough).",
    "The composition of the links and the extension from one cut to any chunking are written arguments (the protocol state is one index).",
    BMC + " of the real scanner + a chunk lemma on the reference scanner over an abstract per-candidate verdict", "3/C06")
reg("C07", "model_checking",
    "Bounded: for every (carrier, width) the real Assembler::put / Parser::parse are decided against an 88-bit window specification for all values, all backgrounds, bit offsets 0..15; overflow path for symbolic buffer lengths.",
    "Trusts Kani/CBMC; offsets >= 16 outside the bound (code uses offset only via /8 and %8); 128-bit carriers excluded.",
    BMC + " of put/parse against a bit-level specification", "3/C07")
reg("C08", "model_checking",
    "All 2^len patterns of every df! field: bit-precisely by CBMC for integer, power-of-two and narrow f32 fields; for all 309 fields (including the 34-38-bit decimal ones) by SMT over a sound real-arithmetic abstraction of the MIR (unsat carries over to IEEE semantics); exactly one absent pattern.",
    "M trusts the C07 bit-channel contract, the standard model of floating point, and its MIR translator, which is validated against the real functions on ~6700 vectors in every run; z3 and cvc5 must agree.",
    BMC + " per field + " + MSMT, "3/C08")
reg("C09", "model_checking",
    "Field level: every df! encoder on every input value (all float bit patterns, full integer ranges): no panic, cursor accounting. Message level: every message encoder with integers over their full type, floats all-bits or boundary candidates, lists 0..2, MSM with symbolic ids and the 65-cell family: no panic, accepted values fit the payload. Frame level: public build_message for three types: header, length, number, checksum placement; no-wire-form messages refused. Builder dispatch decided on the MIR (C14).",
    "Trusts Kani/CBMC; message-level harnesses call the codec the builder dispatches to (dispatch table checked structurally); CRC arithmetic stubbed in frame harnesses (C03).",
    BMC + " of dfs::*::encode, msgNNNN::encode and MessageBuilder::build_message; panics are assertions", "3/C09")
reg("C10", "model_checking",
    "Mask helpers for all masks (signal mask concrete per popcount); for every MSM type: concrete satellite/signal sets in every caller order -> mask bits, row order after decode, re-encode identical; per constellation: error classes with symbolic offending elements, 65 cells refused, mask logic with symbolic identifiers (2 satellites x 2 cells).",
    "Trusts Kani/CBMC and the reference signal tables; arbitrary id sets combined with arbitrary field lists are outside the bound.",
    BMC + " of the MSM data-segment codecs and mask helpers", "3/C10")
reg("C11", "model_checking",
    "All 198 float fields, every REAL input between adjacent representable values: written integer is one of the two neighbours, |decode - x| <= res/2 + slack, no wrap, monotone. Unsat of the negated claims in a sound abstraction (standard model of IEEE-754) => holds for the real semantics.",
    "Trusts the standard model of floating-point arithmetic, the C07 contract and the translator (validated each run); counter-models are concretised and replayed natively before being reported.",
    MSMT + " (linear mixed integer/real arithmetic with explicit rounding-error variables)", "3/C11")
reg("C12", "model_checking",
    "Inductive step instead of history exploration: from EVERY 1029-byte builder state a build call first wipes to the fresh state (L1, solver); a fresh state gives the same output with the flag up or down (L2, solver); the fresh state itself (solver). Thorough tier only (9-40 min each): a fresh builder whose first build fails after bits were written keeps the flag up, and typed evidence with a dirty 96-byte window and symbolic messages. Histories of any length follow by induction (argument).",
    "Needs the cfg-guarded hooks verif_from_raw/verif_raw; CRC arithmetic stubbed (equal buffers get equal checksums).",
    BMC + " of MessageBuilder::build_message from an arbitrary internal state (inductive invariant)", "3/C12")
reg("C13", "model_checking",
    "Bounded: all 10 (quick) / 12-byte buffers x all nested slice pairs: a parsed frame's lengths, payload, checksum and message number do not change when bytes are appended; every declared length 0..=1023 with stubbed CRC.",
    "get_message() equality follows from from_message_frame reading only message_number() and data() (checked on the MIR by C14).",
    BMC + " of MessageFrame::new on nested slices of one buffer", "3/C13")
reg("C14", "model_checking",
    "All 4096 message numbers: the decode dispatch, number() and the encode dispatch are read from the MIR as switch tables and compared with the Cargo.toml feature list by SMT (unsat = no number is cross-wired); anchored on the compiled code by public-path harnesses for typed, unsupported and empty frames.",
    "M trusts its structural reading of three MIR functions (anchored by K); decode calls are uninterpreted Ok/Err outcomes.",
    MSMT + " over the dispatch switch tables + " + BMC + " anchors", "3/C14")
reg("C15", "model_checking",
    "Every n in 0..=capacity (thorough; quick n in {0,1,cap} for 8 types) with the real codecs: wire size, count fields, decoded length and order (symbolic element tags), m1 == m; every count value above capacity => Err; every truncation of a 2-element body => Err.",
    "Trusts Kani/CBMC; element contents in long lists are defaults with a symbolic tag (content fidelity: C01/C08).",
    BMC + " of the list-bearing message codecs, one run per (type, n)", "3/C15")
reg("C16", "model_checking",
    "Quick tier: 1230 with concrete subsets/orders of its four signals and symbolic biases, unrecognised signals refused. Thorough tier (10-40 min per harness because of the 390-entry list): 1059/1065 with one entry on boundary satellite ids and any f32 bias, three entries on fixed satellite arrangements (regrouping, stability), all 2^14 bias patterns, one entry on every satellite id (count-field boundary), hostile 403-entry frame (capacity).",
    "Trusts Kani/CBMC and the SSR signal tables in spec.rs.",
    BMC + " of the three hand-written bias-list codecs", "3/C16")
reg("C17", "model_checking",
    "Df88591String<N> for N in {4,7,31} over all char sequences of length <= N+2 (all scalar values); ArrayString<5>/<8> from <= 4 chars; 1029 text decoder on <= 4 arbitrary bytes and encoder at the 127/128 character boundary.",
    "core::str::from_utf8 replaced by a reference validator under -Z stubbing (std trusted); N = 255 itself outside the bound.",
    BMC + " of the two string types and the 1029 text codec", "3/C17")
reg("C18", "model_checking",
    "Complete over the input types: all u8 ids, all (u8, char) descriptors, all pairs/triples for the order axioms, for 7 constellations, against reference tables typed from the standard.",
    "Trusts Kani/CBMC and the reference tables in kani/src/spec.rs.",
    BMC + " of the signal tables and SigId::cmp over the complete input types", "3/C18")
reg("C20", "model_checking",
    "Hand-written Serialize/Deserialize of Df88591String<4|7> and ArrayString<5> on every content, and two derived message types, through an in-harness token-tape serde back end: deserialize(serialize(x)) == x.",
    "Other message types rely on serde_derive over the same building blocks; real data formats outside the claim; from_utf8 stubbed.",
    BMC + " of the serde impls against a non-allocating token-tape Serializer/Deserializer", "3/C20")

NOT_APPLICABLE = [
    {"property_id": "C19", "reason": "Quantifies over 111+ build configurations (feature selections): the deciding procedure is the Rust compiler per configuration; there is no input, state or schedule to make symbolic and no assertion for a solver. A build-matrix script would be a different technique (DESIGN.md section 5)."},
]

# Only checks that have been run green on the unchanged tree at this revision are claimed.
CLAIMED = ["C%02d" % i for i in range(1, 21) if i != 19]
PENDING = {}


def main():
    ids = ["C%02d" % i for i in range(1, 21)]
    na = list(NOT_APPLICABLE)
    for k in list(CHECKS):
        if k not in CLAIMED:
            PENDING[k] = "check is built (./check %s) but has not yet been validated green on the unchanged tree at this revision; not claimed until it has" % k
            del CHECKS[k]
    for i in ids:
        if i not in CHECKS and i not in [n["property_id"] for n in na]:
            na.append({"property_id": i, "reason": PENDING.get(i, "check not built yet in this revision of /verif (planned, see DESIGN.md section 3); not claimed until it runs")})
    hooks_commits = subprocess.run(["git", "-C", "/repo", "log", "--format=%H %s"], capture_output=True, text=True).stdout.strip().split("\n")
    hook_shas = [l.split()[0] for l in hooks_commits if "verif hooks" in l]
    m = {
        "version": 1,
        "setup_cmd": "./setup.sh",
        "hooks": {
            "guard": "--cfg rtcm_rs_verif (rustc cfg flag; off unless RUSTFLAGS contains it)",
            "enable": "RUSTFLAGS=\"--cfg rtcm_rs_verif\" (set by ./check for every cargo kani / cargo build of /repo)",
            "baseline_off_cmd": "cd /repo && cargo test --workspace --no-fail-fast --offline",
            "source_commits": hook_shas,
            "add_only": True,
        },
        "engines": [
            {"name": "kani", "path": "/verif/kani", "serves_properties": sorted(CHECKS), "kind_free_text": "Kani 0.68 proof harnesses (generated by tools/gen.py from /repo's tables) over the real crate; CBMC 6.11 + CaDiCaL"},
            {"name": "mirsmt", "path": "/verif/mirsmt", "serves_properties": [p for p in sorted(CHECKS) if "mirsmt" in CHECKS[p]["engine"]], "kind_free_text": "MIR (rustc nightly -Zunpretty=mir) -> SMT-LIB2 translator for the df! float kernels and the dispatch table; z3 4.8.12 cross-checked by cvc5 1.0"},
        ],
        "checks": [CHECKS[k] for k in sorted(CHECKS)],
        "not_applicable": na,
        "notes": "Every check regenerates its harnesses from /repo's working tree (tools/gen.py), runs the solver(s), replays counterexamples natively (dev, release, release+overflow-checks) before reporting, and rewrites evidence/<id>.json. Exit 0 held, 1 VIOLATION, 2 inconclusive (timeout/OOM/tool error - never success).",
    }
    with open(os.path.join(ROOT, "MANIFEST.json"), "w") as f:
        json.dump(m, f, indent=1)
    print("MANIFEST.json: %d checks, %d not_applicable" % (len(m["checks"]), len(na)))


if __name__ == "__main__":
    main()
