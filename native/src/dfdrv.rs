//! dfdrv: reads lines "<cmd> <field id> <arg>" on stdin and runs the REAL dfs::<id>::{decode,encode}.
//!   dec <id> <pattern>      -> "val <v>" | "none" | "err <e>"       (pattern: unsigned len-bit int)
//!   enc <id> <v>|none       -> "pat <pattern> <bits written>" | "err <e>" | "panic"
//!   rt  <id> <pattern>      -> "pat <pattern>" | ...               (decode then encode)
//! Floats travel as hex bit patterns (f32: 8 hex digits, f64: 16), integers in decimal.
use rtcm_rs::rtcm_error::RtcmError;
use rtcm_rs::verif_hooks::{dfs, Assembler, Parser};
use std::io::{BufRead, Write};

pub trait Xfer: Sized {
    fn show(&self) -> String;
    fn read(s: &str) -> Option<Self>;
}
macro_rules! xint {
    ($($t:ty),*) => {$(
        impl Xfer for $t {
            fn show(&self) -> String { format!("val {}", self) }
            fn read(s: &str) -> Option<Self> { s.parse::<$t>().ok() }
        }
    )*};
}
xint!(u8, u16, u32, u64, usize, i8, i16, i32, i64);
impl Xfer for f32 {
    fn show(&self) -> String { format!("val {:08x}", self.to_bits()) }
    fn read(s: &str) -> Option<Self> { u32::from_str_radix(s, 16).ok().map(f32::from_bits) }
}
impl Xfer for f64 {
    fn show(&self) -> String { format!("val {:016x}", self.to_bits()) }
    fn read(s: &str) -> Option<Self> { u64::from_str_radix(s, 16).ok().map(f64::from_bits) }
}
impl<T: Xfer> Xfer for Option<T> {
    fn show(&self) -> String { match self { Some(v) => v.show(), None => "none".to_string() } }
    fn read(s: &str) -> Option<Self> { if s == "none" { Some(None) } else { T::read(s).map(Some) } }
}

fn buf_from_pattern(p: u64, len: usize) -> [u8; 16] {
    let mut b = [0u8; 16];
    let w: u128 = (p as u128) << (128 - len);
    for i in 0..16 { b[i] = (w >> (8 * (15 - i))) as u8; }
    b
}
fn pattern_from_buf(b: &[u8; 16], len: usize) -> u64 {
    let mut w: u128 = 0;
    for i in 0..16 { w = (w << 8) | b[i] as u128; }
    (w >> (128 - len)) as u64
}

pub fn run<T: Xfer>(
    cmd: &str, arg: &str, len: usize,
    enc: fn(&mut Assembler, &T) -> Result<(), RtcmError>,
    dec: fn(&mut Parser) -> Result<T, RtcmError>,
) -> String {
    let do_enc = |v: &T| -> String {
        let mut b = [0u8; 16];
        let (r, off) = { let mut a = Assembler::new(&mut b, 0); let r = enc(&mut a, v); (r, a.offset()) };
        match r { Ok(()) => format!("pat {} {}", pattern_from_buf(&b, len), off), Err(e) => format!("err {:?}", e) }
    };
    match cmd {
        "dec" | "rt" => {
            let p: u64 = match arg.parse() { Ok(p) => p, Err(_) => return "badarg".into() };
            let b = buf_from_pattern(p, len);
            let mut par = Parser::new(&b, 0);
            match dec(&mut par) {
                Ok(v) => if cmd == "dec" { v.show() } else { do_enc(&v) },
                Err(e) => format!("err {:?}", e),
            }
        }
        "enc" => match T::read(arg) { Some(v) => do_enc(&v), None => "badarg".into() },
        _ => "badcmd".into(),
    }
}

include!("gen/dfdrv_table.rs");

fn main() {
    std::panic::set_hook(Box::new(|_| {}));
    let stdin = std::io::stdin();
    let out = std::io::stdout();
    let mut out = out.lock();
    for line in stdin.lock().lines() {
        let line = line.unwrap();
        let mut it = line.split_whitespace();
        let (cmd, id, arg) = (it.next().unwrap_or(""), it.next().unwrap_or(""), it.next().unwrap_or(""));
        let (c, i, a) = (cmd.to_string(), id.to_string(), arg.to_string());
        let r = std::panic::catch_unwind(move || dispatch(&c, &i, &a));
        match r { Ok(s) => writeln!(out, "{}", s).unwrap(), Err(_) => writeln!(out, "panic").unwrap() }
    }
}
