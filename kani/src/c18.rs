//! C18 — signal identifier tables: bijection, validity, total order, standard positions.
use crate::spec::*;
use core::cmp::Ordering;

macro_rules! c18 {
    ($g:ident, $T:expr) => {
        pub mod $g {
            use super::*;
            use rtcm_rs::verif_hooks::codec::$g::{to_id, to_sig, SigId};
            #[kani::proof]
            #[kani::unwind(22)]
            pub fn id_to_sig() {
                let id: u8 = kani::any();
                let got = to_sig(id);
                match table_sig($T, id) {
                    Some((b, a)) => {
                        assert!(got == Some(SigId::new(b, a)));
                        kani::cover!(true);
                    }
                    None => assert!(got.is_none()),
                }
            }
            #[kani::proof]
            #[kani::unwind(22)]
            pub fn sig_to_id() {
                let band: u8 = kani::any();
                let attr: char = kani::any();
                let s = SigId::new(band, attr);
                assert!(s.band() == band && s.attribute() == attr);
                let want = table_id($T, band, attr);
                assert!(to_id(s) == want);
                assert!(s.is_valid() == want.is_some());
                if let Some(i) = want {
                    assert!(i >= 2 && i <= 32);
                    assert!(to_sig(i) == Some(s));
                    kani::cover!(true);
                }
                kani::cover!(want.is_none() && attr as u32 > 0xFFFF);
            }
            #[kani::proof]
            #[kani::unwind(22)]
            pub fn bijection() {
                let a = SigId::new(kani::any(), kani::any());
                let b = SigId::new(kani::any(), kani::any());
                if to_id(a).is_some() && to_id(a) == to_id(b) {
                    assert!(a == b);
                }
                let i: u8 = kani::any();
                let j: u8 = kani::any();
                if to_sig(i).is_some() && to_sig(i) == to_sig(j) {
                    assert!(i == j);
                }
                if let Some(s) = to_sig(i) {
                    assert!(to_id(s) == Some(i));
                    assert!(i >= 2 && i <= 32);
                }
            }
            #[kani::proof]
            #[kani::unwind(22)]
            pub fn order() {
                let a = SigId::new(kani::any(), kani::any());
                let b = SigId::new(kani::any(), kani::any());
                let c = SigId::new(kani::any(), kani::any());
                let ab = a.cmp(&b);
                let ba = b.cmp(&a);
                let bc = b.cmp(&c);
                let ac = a.cmp(&c);
                // consistent with equality, antisymmetric, transitive (total is by construction)
                assert!((ab == Ordering::Equal) == (a == b));
                assert!(ba == ab.reverse());
                if ab != Ordering::Greater && bc != Ordering::Greater {
                    assert!(ac != Ordering::Greater);
                }
                if ab == Ordering::Less && bc != Ordering::Greater {
                    assert!(ac == Ordering::Less);
                }
                // recognised descriptors in wire order, all unrecognised ones after them
                let ia = table_id($T, a.band(), a.attribute());
                let ib = table_id($T, b.band(), b.attribute());
                match (ia, ib) {
                    (Some(x), Some(y)) => {
                        assert!(ab == x.cmp(&y));
                        kani::cover!(x < y);
                    }
                    (Some(_), None) => assert!(ab == Ordering::Less),
                    (None, Some(_)) => assert!(ab == Ordering::Greater),
                    (None, None) => {
                        kani::cover!(ab == Ordering::Less);
                    }
                }
            }
        }
    };
}

c18!(gps, GPS);
c18!(glo, GLO);
c18!(gal, GAL);
c18!(sbas, SBAS);
c18!(qzss, QZSS);
c18!(bds, BDS);
c18!(navic, NAVIC);
