//! C05 — the stream scanner finds the first deliverable frame and skips only dead bytes.
//!  scan_N     : real next_msg_frame == reference scanner over the REAL per-candidate verdict
//!               (MessageFrame::new, tied to the bitwise CRC-24Q predicate by C03), all buffers <= N
//!  scan_abs_N : the same equivalence with the CRC arithmetic stubbed by a per-call symbolic
//!               sequence — no CRC circuit, so N = 24 / 48 bytes with every declared length
//!  iter_*     : MsgFrameIter yields exactly the frames of repeated reference scans, consumed() is
//!               the sum, and it terminates
use crate::spec::*;
use crate::util::*;
use rtcm_rs::{next_msg_frame, MessageFrame, MsgFrameIter};

pub fn verdict_real(cand: &[u8]) -> Verdict {
    match MessageFrame::new(cand) {
        Ok(f) => Verdict::Accept(f.data_len()),
        Err(RtcmError::Incomplete) => Verdict::Incomplete,
        Err(RtcmError::NotValid) => Verdict::NotValid,
        Err(_) => {
            assert!(false);
            Verdict::NotValid
        }
    }
}

fn compare(s: &[u8], got: (usize, Option<MessageFrame>), want: (usize, Option<(usize, usize)>)) {
    assert!(got.0 == want.0);
    assert!(got.0 <= s.len());
    match (got.1, want.1) {
        (Some(f), Some((i, l))) => {
            assert!(f.frame_len() == l + 6 && f.data_len() == l);
            assert!(core::ptr::eq(f.frame_data().as_ptr(), s[i..].as_ptr()));
            assert!(got.0 == i + l + 6);
            // the delivered bytes are the buffer bytes ending at the consumed mark
            assert!(core::ptr::eq(f.frame_data().as_ptr(), s[got.0 - f.frame_len()..].as_ptr()));
            kani::cover!(i > 0);
        }
        (None, None) => {
            kani::cover!(got.0 < s.len());
            kani::cover!(got.0 == s.len() && s.len() > 0);
        }
        _ => assert!(false),
    }
}

pub fn scan<const N: usize>() {
    let buf: [u8; N] = kani::any();
    let len: usize = kani::any();
    kani::assume(len <= N);
    let s = &buf[..len];
    let got = next_msg_frame(s);
    let want = ref_scan(s, |_, cand| verdict_real(cand));
    compare(s, got, want);
}

#[kani::proof]
#[kani::unwind(9)]
pub fn scan_7() {
    scan::<7>();
}
#[kani::proof]
#[kani::unwind(10)]
pub fn scan_8() {
    scan::<8>();
}
#[kani::proof]
#[kani::unwind(12)]
pub fn scan_10() {
    scan::<10>();
}

// ---- CRC stubbed by a per-call symbolic sequence ------------------------------------------------
pub const SEQ_N: usize = 48;
pub static mut SEQ: [u32; SEQ_N] = [0; SEQ_N];
pub static mut SEQ_IDX: usize = 0;

pub fn stub_digest_nop<T: ?Sized + AsRef<[u8]>>(_this: &mut crc_any::CRCu32, _data: &T) {}
pub fn stub_get_crc_seq(_this: &crc_any::CRCu32) -> u32 {
    unsafe {
        let v = SEQ[SEQ_IDX];
        SEQ_IDX += 1;
        v
    }
}

/// Verdict shape of MessageFrame::new (proved for the real code by c06::verdict_shape / c03::long),
/// with the checksum of the k-th complete candidate taken from the same table the stub uses.
pub fn verdict_abs(cand: &[u8], k: &mut usize) -> Verdict {
    if cand.len() < 6 {
        return Verdict::Incomplete;
    }
    if cand[0] != 0xD3 {
        return Verdict::NotValid;
    }
    let l = (((cand[1] & 3) as usize) << 8) | cand[2] as usize;
    if cand.len() < l + 6 {
        return Verdict::Incomplete;
    }
    let crc = unsafe { SEQ[*k] };
    *k += 1;
    let stored = ((cand[l + 3] as u32) << 16) | ((cand[l + 4] as u32) << 8) | cand[l + 5] as u32;
    if stored == crc {
        Verdict::Accept(l)
    } else {
        Verdict::NotValid
    }
}

fn init_seq() {
    let seq: [u32; SEQ_N] = kani::any();
    unsafe {
        SEQ = seq;
        SEQ_IDX = 0;
    }
}

pub fn scan_abs<const N: usize>() {
    let buf: [u8; N] = kani::any();
    let len: usize = kani::any();
    kani::assume(len <= N);
    init_seq();
    let s = &buf[..len];
    let got = next_msg_frame(s);
    let mut k = 0usize;
    let want = ref_scan(s, |_, cand| verdict_abs(cand, &mut k));
    compare(s, got, want);
    unsafe {
        assert!(SEQ_IDX == k);
    }
}

#[kani::proof]
#[kani::unwind(26)]
#[kani::stub(crc_any::CRCu32::digest, stub_digest_nop)]
#[kani::stub(crc_any::CRCu32::get_crc, stub_get_crc_seq)]
pub fn scan_abs_24() {
    scan_abs::<24>();
}
#[kani::proof]
#[kani::unwind(50)]
#[kani::stub(crc_any::CRCu32::digest, stub_digest_nop)]
#[kani::stub(crc_any::CRCu32::get_crc, stub_get_crc_seq)]
pub fn scan_abs_48() {
    scan_abs::<48>();
}

/// Iterator == repeated reference scans; CALLS = floor(N/6)+1 next() calls are unrolled (a buffer of
/// N bytes holds at most floor(N/6) frames) and the last one must return None.
macro_rules! iter_body {
    ($n:expr, $calls:expr, $verdict:expr) => {{
        let buf: [u8; $n] = kani::any();
        let len: usize = kani::any();
        kani::assume(len <= $n);
        let s = &buf[..len];
        let mut it = MsgFrameIter::new(s);
        let mut pos = 0usize;
        let mut done = false;
        let mut call = 0;
        while call < $calls {
            let got = (&mut it).next();
            if done || pos >= len {
                // exhausted: the iterator keeps returning None and consumed() stays
                assert!(got.is_none());
                assert!(it.consumed() == pos);
                done = true;
            } else {
                let want = ref_scan(&s[pos..], $verdict);
                pos += want.0;
                assert!(it.consumed() == pos);
                match (got, want.1) {
                    (Some(f), Some((i, l))) => {
                        assert!(f.frame_len() == l + 6);
                        assert!(core::ptr::eq(f.frame_data().as_ptr(), s[pos - l - 6..].as_ptr()));
                        let _ = i;
                        kani::cover!(call == 1);
                    }
                    (None, None) => {
                        // Iterator::next returned None although bytes may remain (incomplete tail)
                    }
                    _ => assert!(false),
                }
            }
            call += 1;
        }
        assert!(pos <= len);
    }};
}

#[kani::proof]
#[kani::unwind(10)]
pub fn iter_8() {
    iter_body!(8, 2, |_, cand| verdict_real(cand));
}

#[kani::proof]
#[kani::unwind(20)]
#[kani::stub(crc_any::CRCu32::digest, stub_digest_nop)]
#[kani::stub(crc_any::CRCu32::get_crc, stub_get_crc_seq)]
pub fn iter_abs_18() {
    init_seq();
    let mut k = 0usize;
    iter_body!(18, 4, |_, cand| verdict_abs(cand, &mut k));
}
