use crate::util::*;
use rtcm_rs::verif_hooks::codec;
fn payload() -> [u8; 40] {
    let mut payload: [u8; 40] = kani::any();
    set_bits(&mut payload, 55, 5, 2);
    payload
}
#[kani::proof]
#[kani::unwind(33)]
pub fn p_plain() {
    let payload = payload();
    let mut par = Parser::new(&payload, 12);
    let _ = codec::msg1004::decode(&mut par);
}
#[kani::proof]
#[kani::unwind(33)]
pub fn p_eq() {
    let payload = payload();
    let mut par = Parser::new(&payload, 12);
    if let Ok(m) = codec::msg1004::decode(&mut par) {
        assert!(m == m);
    }
}
#[kani::proof]
#[kani::unwind(33)]
pub fn p_fin() {
    let payload = payload();
    let mut par = Parser::new(&payload, 12);
    if let Ok(m) = codec::msg1004::decode(&mut par) {
        for e in m.satellites.iter() { if let Some(x) = e.l1_pseudorange_m { assert!(x.is_finite()); } }
    }
}
#[kani::proof]
#[kani::unwind(33)]
pub fn p_len() {
    let payload = payload();
    let mut par = Parser::new(&payload, 12);
    if let Ok(m) = codec::msg1004::decode(&mut par) {
        assert!(m.satellites.len() == 2);
    }
}
