//! C14 — decode outcome classified by message number (K part: the public path
//! MessageFrame::new(..).get_message() for concrete numbers; the table for all 4096 numbers is
//! decided on the MIR by engine M, mirsmt/dispatch.py).
use crate::util::*;
use rtcm_rs::{Message, MessageFrame};

/// A frame for message number `n` with an L-byte payload whose first 12 bits are n, the following 4
/// bits zero and the rest symbolic. The CRC arithmetic is stubbed to return the stored bytes (0).
pub fn frame_for<const N: usize>(n: u16) -> [u8; N] {
    let mut f: [u8; N] = kani::any();
    let l = N - 6;
    f[0] = 0xD3;
    f[1] = (l >> 8) as u8;
    f[2] = l as u8;
    f[3] = (n >> 4) as u8;
    f[4] = ((n & 0xF) << 4) as u8;
    f[N - 3] = 0;
    f[N - 2] = 0;
    f[N - 1] = 0;
    unsafe {
        CRC_VAL = 0;
    }
    f
}

macro_rules! typed {
    ($name:ident, $n:literal, $variant:ident, $len:literal) => {
        #[kani::proof]
        #[kani::unwind(66)]
        #[kani::stub(crc_any::CRCu32::digest, crate::util::stub_digest)]
        #[kani::stub(crc_any::CRCu32::get_crc, crate::util::stub_get_crc)]
        pub fn $name() {
            let f = frame_for::<$len>($n);
            let fr = match MessageFrame::new(&f) {
                Ok(fr) => fr,
                Err(_) => {
                    assert!(false);
                    return;
                }
            };
            assert!(fr.message_number() == Some($n));
            let m = fr.get_message();
            match m {
                Message::$variant(_) => {
                    assert!(m.number() == Some($n));
                    kani::cover!(true);
                }
                Message::Corrupt => {}
                _ => assert!(false),
            }
        }
    };
}
include!("gen/c14_list.rs");

/// payload shorter than two bytes => Empty, whatever follows the frame in the buffer. L is concrete
/// per harness: with a symbolic L the message number is a symbolic Option and CBMC walks all 108
/// decoder arms.
pub fn empty_l(l: usize) {
    let mut buf: [u8; 12] = kani::any();
    buf[0] = 0xD3;
    buf[1] = 0;
    buf[2] = l as u8;
    let crc: u32 = kani::any();
    kani::assume(crc < (1 << 24));
    unsafe {
        CRC_VAL = crc;
    }
    buf[l + 3] = (crc >> 16) as u8;
    buf[l + 4] = (crc >> 8) as u8;
    buf[l + 5] = crc as u8;
    match MessageFrame::new(&buf) {
        Ok(fr) => {
            assert!(fr.data_len() == l);
            assert!(matches!(fr.get_message(), Message::Empty));
            kani::cover!(true);
        }
        Err(_) => assert!(false),
    }
}
#[kani::proof]
#[kani::unwind(12)]
#[kani::stub(crc_any::CRCu32::digest, crate::util::stub_digest)]
#[kani::stub(crc_any::CRCu32::get_crc, crate::util::stub_get_crc)]
pub fn empty_0() {
    empty_l(0);
}
#[kani::proof]
#[kani::unwind(12)]
#[kani::stub(crc_any::CRCu32::digest, crate::util::stub_digest)]
#[kani::stub(crc_any::CRCu32::get_crc, crate::util::stub_get_crc)]
pub fn empty_1() {
    empty_l(1);
}
