//! C17 — text fields are preserved exactly or cut on a character boundary.
use crate::spec::*;
use crate::util::*;
use rtcm_rs::util::{ArrayString, Df88591String};

/// Df88591String::<N>::from_iter over M symbolic chars (every Unicode scalar value), count <= M.
fn desc_from_chars<const N: usize, const M: usize>() {
    let chars: [char; M] = kani::any();
    let cnt: usize = kani::any();
    kani::assume(cnt <= M);
    let s: Df88591String<N> = chars[..cnt].iter().copied().collect();
    let want_len = if cnt < N { cnt } else { N };
    assert!(s.len() == want_len);
    let mut it = s.iter();
    let mut ch = s.chars();
    let mut i = 0;
    while i < M {
        if i < want_len {
            let b = *it.next().unwrap();
            assert!(b == latin1_byte(chars[i]));
            assert!(b != 0);
            // reading the characters back returns that mapping
            assert!(ch.next() == Some(char::from(b)));
        }
        i += 1;
    }
    assert!(it.next().is_none());
    assert!(ch.next().is_none());
    kani::cover!(cnt == M && M > N);
    kani::cover!(cnt > 0 && chars[0] as u32 > 0xFFFF);
    kani::cover!(cnt > 0 && chars[0] == '\0');
}

#[kani::proof]
#[kani::unwind(8)]
pub fn desc_4() {
    desc_from_chars::<4, 6>();
}
#[kani::proof]
#[kani::unwind(35)]
pub fn desc_31() {
    desc_from_chars::<31, 33>();
}
#[kani::proof]
#[kani::unwind(11)]
pub fn desc_7() {
    desc_from_chars::<7, 9>();
}

/// push(0) stores 0xA4 (NUL is not allowed on the wire); other bytes unchanged.
#[kani::proof]
#[kani::unwind(6)]
pub fn desc_push() {
    let mut s = Df88591String::<4>::new();
    let b: u8 = kani::any();
    s.push(b);
    let got = *s.iter().next().unwrap();
    assert!(got == if b == 0 { 0xA4 } else { b });
    assert!(s.chars().next() == Some(char::from(got)));
}

/// From<&str>: the same loop behind str::chars(), string assembled from <= 5 symbolic chars.
#[kani::proof]
#[kani::unwind(24)]
#[kani::stub(core::str::from_utf8, crate::util::from_utf8_ref)]
pub fn desc_from_str_4() {
    let chars: [char; 5] = kani::any();
    let cnt: usize = kani::any();
    kani::assume(cnt <= 5);
    let mut buf = [0u8; 20];
    let mut n = 0usize;
    let mut i = 0;
    while i < 5 {
        if i < cnt {
            n += chars[i].encode_utf8(&mut buf[n..]).len();
        }
        i += 1;
    }
    let st = match core::str::from_utf8(&buf[..n]) {
        Ok(s) => s,
        Err(_) => {
            assert!(false);
            return;
        }
    };
    let s: Df88591String<4> = Df88591String::from(st);
    let want_len = if cnt < 4 { cnt } else { 4 };
    assert!(s.len() == want_len);
    let mut it = s.iter();
    let mut i = 0;
    while i < 4 {
        if i < want_len {
            assert!(*it.next().unwrap() == latin1_byte(chars[i]));
        }
        i += 1;
    }
}

/// ArrayString::<N>: longest prefix of whole characters that fits N bytes; always valid UTF-8.
fn utf8_from_chars<const N: usize, const M: usize>() {
    let chars: [char; M] = kani::any();
    let cnt: usize = kani::any();
    kani::assume(cnt <= M);
    let s: ArrayString<N> = chars[..cnt].iter().copied().collect();
    // spec: take characters while the running byte length stays <= N
    let mut want_bytes = 0usize;
    let mut want_chars = 0usize;
    let mut stopped = false;
    let mut i = 0;
    while i < M {
        if i < cnt && !stopped {
            let l = utf8_len(chars[i]);
            if want_bytes + l <= N {
                want_bytes += l;
                want_chars += 1;
            } else {
                stopped = true;
            }
        }
        i += 1;
    }
    let st: &str = &s;
    assert!(st.len() == want_bytes);
    assert!(utf8_valid(st.as_bytes()));
    let mut it = st.chars();
    let mut i = 0;
    while i < M {
        if i < want_chars {
            assert!(it.next() == Some(chars[i]));
        }
        i += 1;
    }
    assert!(it.next().is_none());
    kani::cover!(stopped && want_bytes == N - 1);
    kani::cover!(want_bytes == N);
}

#[kani::proof]
#[kani::unwind(12)]
#[kani::stub(core::str::from_utf8, crate::util::from_utf8_ref)]
pub fn utf8_5() {
    utf8_from_chars::<5, 4>();
}
#[kani::proof]
#[kani::unwind(12)]
#[kani::stub(core::str::from_utf8, crate::util::from_utf8_ref)]
pub fn utf8_8() {
    utf8_from_chars::<8, 4>();
}

/// 1029 decoder: the byte-count field k (<= 4) followed by k symbolic bytes: Ok => the bytes are
/// well-formed UTF-8 and come back unchanged; not well formed => Err (-> Corrupt).
#[kani::proof]
#[kani::unwind(132)]
#[kani::stub(core::str::from_utf8, crate::util::from_utf8_ref)]
pub fn msg1029_decode() {
    use rtcm_rs::verif_hooks::dfs::df_msg1029_utf8_str as d;
    let mut payload: [u8; 8] = kani::any();
    let k: usize = kani::any();
    kani::assume(k <= 4);
    // field layout at bit 0: 7-bit char count (ignored by the decoder), 8-bit byte count, bytes
    // placed at offset 1 so that the text is byte aligned as in the real message (72 bits before it)
    set_bits(&mut payload, 8, 8, k as u64);
    let mut par = Parser::new(&payload, 1);
    let r = d::decode(&mut par);
    let valid = utf8_valid(&payload[2..2 + k]);
    match r {
        Ok(s) => {
            assert!(valid);
            let st: &str = &s;
            assert!(st.len() == k);
            let mut i = 0;
            while i < 4 {
                if i < k {
                    assert!(st.as_bytes()[i] == payload[2 + i]);
                }
                i += 1;
            }
            assert!(par.offset() == 16 + 8 * k);
            kani::cover!(k == 4 && payload[2] >= 0xF0);
        }
        Err(_) => {
            assert!(!valid);
            kani::cover!(k == 2);
        }
    }
}

/// 1029 encoder: text of more than 127 characters is refused; within limits the counts on the wire
/// are the character and byte counts (ASCII text of symbolic length up to 130).
#[kani::proof]
#[kani::unwind(132)]
#[kani::stub(core::str::from_utf8, crate::util::from_utf8_ref)]
pub fn msg1029_encode_limits() {
    use rtcm_rs::verif_hooks::dfs::df_msg1029_utf8_str as d;
    let n: usize = kani::any();
    kani::assume(n <= 130);
    let mut s = ArrayString::<255>::new();
    let mut i = 0;
    while i < 130 {
        if i < n {
            let _ = s.try_push('a');
        }
        i += 1;
    }
    let mut buf = [0u8; 140];
    let mut asm = Assembler::new(&mut buf, 0);
    let r = d::encode(&mut asm, &s);
    if n > 127 {
        assert!(r.is_err());
    } else {
        assert!(r.is_ok());
        assert!(asm.offset() == 15 + 8 * n);
        assert!(get_bits(&buf, 0, 7) == n as u64);
        assert!(get_bits(&buf, 7, 8) == n as u64);
    }
    kani::cover!(n == 128);
    kani::cover!(n == 127);
}
