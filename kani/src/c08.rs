//! C08 — every data field is lossless on its grid and has exactly one 'absent' pattern (bit-precise
//! part: integer fields, power-of-two resolutions, narrow f32 decimal fields; the wide decimal
//! fields are decided by engine M). One harness per field, generated from /repo's dfs.rs.
use crate::util::*;

pub trait FieldVal {
    fn absent(&self) -> bool;
    fn finite(&self) -> bool;
}
macro_rules! fv_int {
    ($($t:ty),*) => {$(impl FieldVal for $t { fn absent(&self) -> bool { false } fn finite(&self) -> bool { true } })*};
}
fv_int!(u8, u16, u32, u64, usize, i8, i16, i32, i64);
impl FieldVal for f32 {
    fn absent(&self) -> bool { false }
    fn finite(&self) -> bool { self.is_finite() }
}
impl FieldVal for f64 {
    fn absent(&self) -> bool { false }
    fn finite(&self) -> bool { self.is_finite() }
}
impl<T: FieldVal> FieldVal for Option<T> {
    fn absent(&self) -> bool { self.is_none() }
    fn finite(&self) -> bool { match self { Some(v) => v.finite(), None => true } }
}

fn buf_from_pattern(p: u64, len: usize) -> [u8; 9] {
    let w: u128 = (p as u128) << (72 - len);
    let mut b = [0u8; 9];
    let mut i = 0;
    while i < 9 {
        b[i] = (w >> (8 * (8 - i))) as u8;
        i += 1;
    }
    b
}
fn pattern_from_buf(b: &[u8; 9], len: usize) -> u64 {
    let mut w: u128 = 0;
    let mut i = 0;
    while i < 9 {
        w = (w << 8) | b[i] as u128;
        i += 1;
    }
    (w >> (72 - len)) as u64
}

pub fn roundtrip<T: FieldVal>(
    len: usize,
    inv: Option<u64>,
    signmag: bool,
    enc: fn(&mut Assembler, &T) -> Result<(), RtcmError>,
    dec: fn(&mut Parser) -> Result<T, RtcmError>,
) {
    let p: u64 = kani::any();
    kani::assume(len == 64 || p < (1u64 << len));
    let b = buf_from_pattern(p, len);
    let mut par = Parser::new(&b, 0);
    let v = match dec(&mut par) {
        Ok(v) => v,
        Err(_) => {
            assert!(false);
            return;
        }
    };
    assert!(par.offset() == len);
    // exactly one absent pattern; every other pattern decodes to a present, finite value
    match inv {
        Some(ip) => assert!(v.absent() == (p == ip)),
        None => assert!(!v.absent()),
    }
    assert!(v.finite());
    let mut out = [0u8; 9];
    let (r, off) = {
        let mut asm = Assembler::new(&mut out, 0);
        let r = enc(&mut asm, &v);
        (r, asm.offset())
    };
    assert!(r.is_ok());
    assert!(off == len);
    let q = pattern_from_buf(&out, len);
    if signmag && p == 1u64 << (len - 1) {
        // redundant negative zero normalises to positive zero
        assert!(q == 0);
    } else {
        assert!(q == p);
    }
    kani::cover!(p == 1);
    kani::cover!(len == 64 || p == (1u64 << len) - 1);
}

include!("gen/c08_list.rs");
