//! C01 — encode/decode normal form, structure layer.
use crate::util::*;

/// m accepted by the encoder => the payload decodes (never an error) to m1 consuming exactly what was
/// written, m1 re-encodes to the same bits, and m1 is a fixed point.
pub fn roundtrip<T: PartialEq>(
    nbytes: usize,
    number: u16,
    m: &T,
    enc: fn(&mut Assembler, &T) -> Result<(), RtcmError>,
    dec: fn(&mut Parser) -> Result<T, RtcmError>,
    strict_bytes: bool,
) {
    let mut b1 = [0u8; 1023];
    let n1 = {
        let mut asm = Assembler::new(&mut b1[..nbytes], 0);
        assert!(asm.put::<U16>(number, 12).is_ok());
        if enc(&mut asm, m).is_err() {
            return;
        }
        asm.offset()
    };
    kani::cover!(true);
    let data_len = (n1 - 1) / 8 + 1;
    let m1 = {
        let mut par = Parser::new(&b1[..data_len], 12);
        match dec(&mut par) {
            Ok(x) => {
                assert!(par.offset() == n1);
                x
            }
            Err(_) => {
                assert!(false);
                return;
            }
        }
    };
    let mut b2 = [0u8; 1023];
    {
        let mut asm = Assembler::new(&mut b2[..nbytes], 0);
        assert!(asm.put::<U16>(number, 12).is_ok());
        assert!(enc(&mut asm, &m1).is_ok());
        assert!(asm.offset() == n1);
    }
    if strict_bytes {
        let mut i = 0;
        while i < nbytes {
            assert!(b1[i] == b2[i]);
            i += 1;
        }
    }
    let mut par = Parser::new(&b2[..data_len], 12);
    match dec(&mut par) {
        Ok(m2) => assert!(m2 == m1),
        Err(_) => assert!(false),
    }
}
