//! C04 — corrupted frames are never delivered.
//! Direct, bounded: every valid frame of N bytes x every error pattern of a class (single bit,
//! two bits, burst <= 24) confined to reserved bits / payload / checksum.
//! Any length: step lemmas on the real crc_any object over its complete state space (DESIGN.md C04).
use crate::spec::*;
use crate::util::*;
use rtcm_rs::{next_msg_frame, MessageFrame};

fn xor_window<const N: usize>(f: &[u8; N], e: u128) -> [u8; N] {
    // e holds the error pattern for the N*8 frame bits, MSB = bit 0 of byte 0
    let mut g = *f;
    let mut i = 0;
    while i < N {
        g[i] ^= (e >> (8 * (N - 1 - i))) as u8;
        i += 1;
    }
    g
}

fn direct<const N: usize>(e: u128) {
    let f: [u8; N] = kani::any();
    // valid frame that fills the buffer exactly
    kani::assume(f[0] == 0xD3 && (f[1] & 3) == 0 && f[2] as usize == N - 6);
    let ok = MessageFrame::new(&f).is_ok();
    kani::assume(ok);
    // error confined to reserved bits, payload and checksum; not empty
    let nbits = 8 * N;
    kani::assume(e != 0 && (e >> nbits) == 0);
    let top24 = (e >> (nbits - 24)) as u32;
    kani::assume(top24 & 0xFF03FF == 0);
    let g = xor_window::<N>(&f, e);
    let r = MessageFrame::new(&g);
    assert!(matches!(r, Err(RtcmError::NotValid)));
    let (_, m) = next_msg_frame(&g);
    if let Some(fr) = m {
        // whatever the scanner finds inside the damaged bytes, it is not the damaged frame
        assert!(!core::ptr::eq(fr.frame_data().as_ptr(), g.as_ptr()));
    }
    kani::cover!(top24 != 0);
    kani::cover!(e & 0xFFFFFF != 0);
}

fn single<const N: usize>() {
    let a: u32 = kani::any();
    kani::assume((a as usize) < 8 * N);
    direct::<N>(1u128 << a);
}
fn double<const N: usize>() {
    let a: u32 = kani::any();
    let b: u32 = kani::any();
    kani::assume((a as usize) < 8 * N && b < a);
    direct::<N>((1u128 << a) | (1u128 << b));
}
fn burst<const N: usize>() {
    let p: u32 = kani::any();
    let s: u32 = kani::any();
    kani::assume(p < (1 << 24) && (p & 1) == 1 && (s as usize) < 8 * N);
    direct::<N>((p as u128) << s);
}

macro_rules! c04_direct {
    ($n:literal, $unw:literal, $s:ident, $d:ident, $b:ident) => {
        #[kani::proof]
        #[kani::unwind($unw)]
        pub fn $s() {
            single::<$n>();
        }
        #[kani::proof]
        #[kani::unwind($unw)]
        pub fn $d() {
            double::<$n>();
        }
        #[kani::proof]
        #[kani::unwind($unw)]
        pub fn $b() {
            burst::<$n>();
        }
    };
}
c04_direct!(8, 10, single_8, double_8, burst_8);
c04_direct!(10, 12, single_10, double_10, burst_10);
c04_direct!(12, 14, single_12, double_12, burst_12);

// ---- lemmas on the real CRC object --------------------------------------------------------------
use crc_any::CRC;

fn state_after(p: &[u8; 3]) -> (CRC, u32) {
    let mut c = CRC::crc24lte_a();
    c.digest(p);
    let s = c.get_crc() as u32;
    (c, s)
}
fn be3(s: u32) -> [u8; 3] {
    [(s >> 16) as u8, (s >> 8) as u8, s as u8]
}

/// L-lin, L-par, L-zero, L-aug: for every 24-bit state (prefix -> state is onto, see c03::crc_step).
#[kani::proof]
#[kani::unwind(5)]
pub fn lemmas() {
    let p1: [u8; 3] = kani::any();
    let p2: [u8; 3] = kani::any();
    let b1: u8 = kani::any();
    let b2: u8 = kani::any();
    let (mut c1, s1) = state_after(&p1);
    let (mut c2, s2) = state_after(&p2);
    let px = [p1[0] ^ p2[0], p1[1] ^ p2[1], p1[2] ^ p2[2]];
    let (mut cx, sx) = state_after(&px);
    // linearity of the state in the input (init 0, no xor-out)
    assert!(sx == s1 ^ s2);
    c1.digest(&[b1]);
    c2.digest(&[b2]);
    cx.digest(&[b1 ^ b2]);
    let t1 = c1.get_crc() as u32;
    let t2 = c2.get_crc() as u32;
    let tx = cx.get_crc() as u32;
    // L-lin: step(s1^s2, b1^b2) == step(s1,b1) ^ step(s2,b2)
    assert!(tx == t1 ^ t2);
    // L-par: the generator has the factor x+1
    assert!((t1.count_ones() & 1) == ((s1.count_ones() + b1.count_ones()) & 1));
    // L-zero: a zero byte keeps zero at zero and non-zero at non-zero
    if b1 == 0 {
        assert!((t1 == 0) == (s1 == 0));
    }
    // L-aug: digesting the big-endian register after a message returns the register to zero, and
    // three bytes T digested from state s end in zero only if T is that register
    let t: [u8; 3] = kani::any();
    let (mut c3, s3) = state_after(&p1);
    c3.digest(&t);
    let z = c3.get_crc() as u32;
    assert!((z == 0) == (t == be3(s3)));
    kani::cover!(s1 == 0x800000 && b1 == 0);
}

/// L-burst: from state zero, a non-empty error burst of <= 24 bits (at any bit alignment, so up to
/// four bytes) leaves a non-zero state.
#[kani::proof]
#[kani::unwind(6)]
pub fn lemma_burst() {
    let p: u32 = kani::any();
    let s: u32 = kani::any();
    kani::assume(p != 0 && p < (1 << 24) && s < 8);
    let e: u32 = p << s;
    let bytes = [(e >> 24) as u8, (e >> 16) as u8, (e >> 8) as u8, e as u8];
    let mut c = CRC::crc24lte_a();
    c.digest(&bytes);
    assert!(c.get_crc() != 0);
    kani::cover!(s == 7 && p == 0xFFFFFF);
}

/// Two single-bit errors at every distance up to a whole maximum-length frame: a one-hot byte e1,
/// k zero bytes (every k 0..=1028), a second one-hot byte e2, digested from state zero, must leave a
/// non-zero state.  By L-lin (c04::lemmas) D(e1 0^k e2) = D(e1 0^(k+1)) ^ D(e2), so the claim is
/// "the state after e1 and k+1 zero bytes differs from the state after e2 alone" for every k.
/// The register sequence is computed with the spec step function, which c03::crc_step proves equal
/// to the real crc_any step on every state (8232 calls of the real `digest` cost ~0.3 s of symbolic
/// execution each and did not finish in 40 min).  The positions are 6 bits of input, walked by
/// concrete loops: CBMC evaluates the sequence by constant propagation — the claim is a fact about
/// the generator (order of x mod G exceeds 8232), there is nothing else to make symbolic.
#[kani::proof]
#[kani::unwind(1031)]
pub fn double_long() {
    let mut u = [0u32; 8];
    let mut i2 = 0;
    while i2 < 8 {
        u[i2] = crc24q_byte(0, 1u8 << i2);
        assert!(u[i2] != 0);
        i2 += 1;
    }
    let mut i1 = 0;
    while i1 < 8 {
        let mut s = crc24q_byte(0, 1u8 << i1);
        let mut k = 0;
        while k <= 1028 {
            s = crc24q_byte(s, 0);
            assert!(s != u[0] && s != u[1] && s != u[2] && s != u[3]);
            assert!(s != u[4] && s != u[5] && s != u[6] && s != u[7]);
            k += 1;
        }
        i1 += 1;
    }
}
