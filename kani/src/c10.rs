//! C10 — MSM satellite, signal and cell masks.
//! Static part: the private mask helpers (through the hook forwarders) against bit-level specs.
use crate::spec::*;
use crate::util::*;
use rtcm_rs::verif_hooks::codec;

#[kani::proof]
#[kani::unwind(66)]
pub fn helper_ids_u64() {
    let mask: u64 = kani::any();
    let v = codec::mask_to_id_vec_u64(mask);
    assert!(v.len() == mask.count_ones() as usize);
    assert!(codec::mask_len_u64(mask) == mask.count_ones() as usize);
    let mut j = 0usize;
    let mut i = 1u32;
    while i <= 64 {
        if (mask >> (64 - i)) & 1 == 1 {
            assert!(v[j] == i as u8);
            j += 1;
        }
        i += 1;
    }
    assert!(j == v.len());
    kani::cover!(mask == u64::MAX);
}

#[kani::proof]
#[kani::unwind(34)]
pub fn helper_ids_u32() {
    let mask: u32 = kani::any();
    let v = codec::mask_to_id_vec_u32(mask);
    assert!(v.len() == mask.count_ones() as usize);
    assert!(codec::mask_len_u32(mask) == mask.count_ones() as usize);
    let mut j = 0usize;
    let mut i = 1u32;
    while i <= 32 {
        if (mask >> (32 - i)) & 1 == 1 {
            assert!(v[j] == i as u8);
            j += 1;
        }
        i += 1;
    }
    assert!(j == v.len());
}

/// cell_mask_id_vec with the satellite mask and the cell mask fully symbolic and a concrete signal
/// mask of K set bits (the symbolic-by-symbolic division `i / sig_vec.len()` otherwise never
/// finishes; the positions of signal bits are helper_ids_u32's job).
pub fn helper_cells(sig_mask: u32) {
    let sat_mask: u64 = kani::any();
    let cell_mask: u64 = kani::any();
    let nsig = sig_mask.count_ones() as usize;
    let nsat = sat_mask.count_ones() as usize;
    let r = codec::cell_mask_id_vec(sat_mask, sig_mask, cell_mask);
    let n = nsat * nsig;
    if n == 0 || n > 64 {
        assert!(r.is_none());
        kani::cover!(n == 66 || n == 65 || n == 72 || n == 96 || n > 64);
        return;
    }
    let (sv, cv) = match r {
        Some(x) => x,
        None => {
            assert!(false);
            return;
        }
    };
    let sats = codec::mask_to_id_vec_u64(sat_mask);
    let sigs = codec::mask_to_id_vec_u32(sig_mask);
    assert!(sv.len() == nsat);
    // row-major incidence of the low n bits of the cell mask
    let mut j = 0usize;
    let mut i = 0usize;
    while i < 64 {
        if i < n {
            assert!(i / nsig >= sv.len() || sv[i / nsig] == sats[i / nsig]);
            if (cell_mask >> (n - 1 - i)) & 1 == 1 {
                assert!(cv[j].0 == sats[i / nsig]);
                assert!(cv[j].1 == sigs[i % nsig]);
                j += 1;
            }
        }
        i += 1;
    }
    assert!(j == cv.len());
    kani::cover!(n == 64);
    kani::cover!(cv.len() == 0);
}

macro_rules! helper_cells {
    ($name:ident, $mask:expr) => {
        #[kani::proof]
        #[kani::unwind(66)]
        pub fn $name() {
            helper_cells($mask);
        }
    };
}
helper_cells!(helper_cells_k1, 1u32 << 30);
helper_cells!(helper_cells_k2, (1u32 << 30) | (1 << 24));
helper_cells!(helper_cells_k3, (1u32 << 30) | (1 << 24) | (1 << 0));
helper_cells!(helper_cells_k8, 0x4400_0000u32 | 0x0022_1100 | 0x0000_0011);
helper_cells!(helper_cells_k13, 0x7070_E1C1u32);
helper_cells!(helper_cells_k32, u32::MAX);
