//! C13 — a frame's interpretation does not depend on the bytes that follow it.
//!  short_N: every buffer of N bytes, every pair of slice lengths len1 <= len2 — if the shorter
//!           slice parses, the longer one parses to the same frame (lengths, payload, checksum,
//!           message number); NotValid is stable too; the number is the first 12 payload bits iff
//!           the payload has >= 2 bytes.
//!  (c03::long, listed in C13's plan, does the same for every L 0..=1023 with the CRC stubbed.)
use crate::spec::*;
use crate::util::*;
use rtcm_rs::MessageFrame;

pub fn check_short<const N: usize>() {
    let buf: [u8; N] = kani::any();
    let len1: usize = kani::any();
    let len2: usize = kani::any();
    kani::assume(len1 <= len2 && len2 <= N);
    let r1 = MessageFrame::new(&buf[..len1]);
    let r2 = MessageFrame::new(&buf[..len2]);
    match r1 {
        Ok(f1) => match r2 {
            Ok(f2) => {
                let l = f1.data_len();
                assert!(f2.data_len() == l);
                assert!(f2.frame_len() == f1.frame_len() && f1.frame_len() == l + 6);
                assert!(f2.crc() == f1.crc());
                assert!(core::ptr::eq(f1.data().as_ptr(), f2.data().as_ptr()));
                assert!(core::ptr::eq(f1.frame_data().as_ptr(), f2.frame_data().as_ptr()));
                assert!(f1.data().len() == f2.data().len());
                assert!(f1.frame_data().len() == f2.frame_data().len());
                assert!(f1.message_number() == f2.message_number());
                if l >= 2 {
                    let n = ((buf[3] as u16) << 4) | ((buf[4] as u16) >> 4);
                    assert!(f1.message_number() == Some(n));
                    kani::cover!(len2 > len1);
                } else {
                    assert!(f1.message_number().is_none());
                    assert!(f2.message_number().is_none());
                    kani::cover!(l == 0 && len2 >= 9);
                    kani::cover!(l == 1 && len2 >= 9);
                }
            }
            Err(_) => assert!(false),
        },
        Err(RtcmError::NotValid) => {
            assert!(matches!(r2, Err(RtcmError::NotValid)));
            kani::cover!(len1 >= 6 && buf[0] == 0xD3 && len2 > len1);
        }
        Err(RtcmError::Incomplete) => {
            // growing the slice may turn Incomplete into anything, never the other way round
            kani::cover!(r2.is_ok());
        }
        Err(_) => assert!(false),
    }
}

#[kani::proof]
#[kani::unwind(12)]
pub fn short_10() {
    check_short::<10>();
}
#[kani::proof]
#[kani::unwind(14)]
pub fn short_12() {
    check_short::<12>();
}
