//! C16 — SSR code-bias (1059, 1065) and GLONASS code-phase bias (1230) lists keep every entry or
//! report an error.
use crate::spec::*;
use crate::util::*;
use rtcm_rs::util::DataVec;

fn bias_close(x: f32, d: f32, res: f32) -> bool {
    let e = if d > x { d - x } else { x - d };
    e <= res * 0.5 + res * 0.002
}

macro_rules! ssr_bias {
    ($m:ident, $codec:ident, $entry:ident, $sig:ident, $table:expr, $satmax:literal, $satbits:literal) => {
        pub mod $m {
            use super::*;
            use rtcm_rs::msg::{$entry, $sig};
            use rtcm_rs::verif_hooks::dfs::$codec as c;
            pub type List = DataVec<$entry, 390>;

            fn sig_at(i: usize) -> $sig {
                $sig::new($table[i].1, $table[i].2)
            }

            /// one entry on a CONCRETE satellite id (instances cover the whole range's boundaries; with
            /// a symbolic id the encoder's `for s in 0..=63` loop turns into 64 conditional blocks at
            /// symbolic offsets: no verdict in 40 min), a CONCRETE recognised signal (a symbolic one makes the decoder's
            /// push conditional, the decoded length symbolic and the re-encode explode), any f32 bias
            pub fn one_at(sat: u8, si: usize) {
                let bias = f32::from_bits(kani::any());
                let mut v = List::new();
                v.push($entry { satellite_id: sat, signal_id: sig_at(si), bias_m: bias });
                let mut buf = [0u8; 8];
                let off = {
                    let mut asm = Assembler::new(&mut buf, 0);
                    match c::encode(&mut asm, &v) {
                        Ok(()) => asm.offset(),
                        Err(_) => {
                            assert!(sat > $satmax);
                            return;
                        }
                    }
                };
                assert!(sat <= $satmax);
                assert!(off == 6 + $satbits + 5 + 5 + 14);
                // wire: count 1, satellite, one bias, the table's signal number
                assert!(get_bits(&buf, 0, 6) == 1);
                assert!(get_bits(&buf, 6, $satbits) == sat as u64);
                assert!(get_bits(&buf, 6 + $satbits, 5) == 1);
                assert!(get_bits(&buf, 6 + $satbits + 5, 5) == $table[si].0 as u64);
                let mut par = Parser::new(&buf, 0);
                let d = match c::decode(&mut par) {
                    Ok(d) => d,
                    Err(_) => {
                        assert!(false);
                        return;
                    }
                };
                assert!(par.offset() == off);
                assert!(d.len() == 1);
                assert!(d[0].satellite_id == sat && d[0].signal_id == sig_at(si));
                assert!(d[0].bias_m.is_finite());
                // in-range input: the decoded bias is the nearest grid value
                if bias >= -81.9 && bias <= 81.9 {
                    assert!(bias_close(bias, d[0].bias_m, 0.01));
                }
                // bias on its grid: decoding is a fixed point of encode
                let mut buf2 = [0u8; 8];
                let mut asm = Assembler::new(&mut buf2, 0);
                assert!(c::encode(&mut asm, &d).is_ok());
                let mut i = 0;
                while i < 8 {
                    assert!(buf[i] == buf2[i]);
                    i += 1;
                }
                kani::cover!(bias > 50.0);
            }
            #[kani::proof]
            #[kani::unwind(66)]
            pub fn one_sat0() {
                one_at(0, 0);
            }
            #[kani::proof]
            #[kani::unwind(66)]
            pub fn one_sat1() {
                one_at(1, $table.len() - 1);
            }
            #[kani::proof]
            #[kani::unwind(66)]
            pub fn one_sat_mid() {
                one_at($satmax / 2 + 1, $table.len() - 1);
            }
            #[kani::proof]
            #[kani::unwind(66)]
            pub fn one_sat_max() {
                one_at($satmax, $table.len() - 1);
            }
            #[kani::proof]
            #[kani::unwind(66)]
            pub fn one_sat_over() {
                one_at($satmax + 1, 0);
            }
            #[kani::proof]
            #[kani::unwind(66)]
            pub fn one_sat_255() {
                one_at(255, 0);
            }

            /// every 14-bit bias pattern decodes and re-encodes to itself (C08 for this quantiser)
            #[kani::proof]
            #[kani::unwind(66)]
            pub fn pattern() {
                let p: u64 = kani::any();
                kani::assume(p < (1 << 14));
                // count 1 | satellite 9 | one bias | first table signal | 14-bit pattern. The parser
                // starts at bit offset O so that the pattern begins on a byte boundary: the bytes
                // holding the control fields are constants and only bytes 3..4 are symbolic (a field
                // sharing a byte with symbolic bits is a symbolic expression for CBMC's constant
                // propagation and the decoder's loop counts would no longer fold)
                const O: usize = 24 - (6 + $satbits + 5 + 5);
                let head: u32 = (((((1u32 << $satbits) | 9) << 5) | 1) << 5) | $table[0].0 as u32;
                let mut buf = [0u8; 8];
                buf[0] = (head >> 16) as u8;
                buf[1] = (head >> 8) as u8;
                buf[2] = head as u8;
                buf[3] = (p >> 6) as u8;
                buf[4] = ((p & 0x3F) << 2) as u8;
                let mut par = Parser::new(&buf, O);
                let d = match c::decode(&mut par) {
                    Ok(d) => d,
                    Err(_) => {
                        assert!(false);
                        return;
                    }
                };
                assert!(d.len() == 1 && d[0].bias_m.is_finite());
                let mut buf2 = [0u8; 8];
                let mut asm = Assembler::new(&mut buf2, O);
                assert!(c::encode(&mut asm, &d).is_ok());
                assert!(get_bits(&buf2, 24, 14) == p);
                assert!(buf2[0] == buf[0] && buf2[1] == buf[1] && buf2[2] == buf[2]);
            }

            /// three entries on a concrete satellite arrangement, symbolic distinct signals and grid
            /// biases: decoded list == input regrouped by ascending satellite, stable inside a satellite
            pub fn group(sats: [u8; 3]) {
                // concrete, pairwise distinct signals (symbolic ones: see one_at); biases symbolic
                let si: [usize; 3] = [1, 0, $table.len() - 1];
                let k: [i16; 3] = kani::any();
                let mut v = List::new();
                let mut i = 0;
                while i < 3 {
                    kani::assume(k[i] > -8192 && k[i] < 8192);
                    i += 1;
                }
                let mut i = 0;
                while i < 3 {
                    v.push($entry { satellite_id: sats[i], signal_id: sig_at(si[i]), bias_m: (k[i] as f32) * 0.01 });
                    i += 1;
                }
                let mut buf = [0u8; 16];
                let off = {
                    let mut asm = Assembler::new(&mut buf, 0);
                    assert!(c::encode(&mut asm, &v).is_ok());
                    asm.offset()
                };
                let mut par = Parser::new(&buf, 0);
                let d = match c::decode(&mut par) {
                    Ok(d) => d,
                    Err(_) => {
                        assert!(false);
                        return;
                    }
                };
                assert!(par.offset() == off);
                assert!(d.len() == 3);
                // expected order: stable sort of indices by satellite
                let mut order = [0usize, 1, 2];
                if sats[order[0]] > sats[order[1]] { order.swap(0, 1); }
                if sats[order[1]] > sats[order[2]] { order.swap(1, 2); }
                if sats[order[0]] > sats[order[1]] { order.swap(0, 1); }
                // stability for equal satellites
                if sats[order[0]] == sats[order[1]] && order[0] > order[1] { order.swap(0, 1); }
                if sats[order[1]] == sats[order[2]] && order[1] > order[2] { order.swap(1, 2); }
                if sats[order[0]] == sats[order[1]] && order[0] > order[1] { order.swap(0, 1); }
                let mut j = 0;
                while j < 3 {
                    let e = &v[order[j]];
                    assert!(d[j].satellite_id == e.satellite_id);
                    assert!(d[j].signal_id == e.signal_id);
                    assert!(d[j].bias_m == e.bias_m);
                    j += 1;
                }
            }

            /// one entry on every satellite 0..=max-1 (the largest count the 6-bit field can carry for
            /// 1059): must encode, and every entry must come back, satellite 0 included
            #[kani::proof]
            #[kani::unwind(66)]
            pub fn most_satellites() {
                let mut v = List::new();
                let mut s = 0u8;
                while s < $satmax {
                    v.push($entry { satellite_id: s, signal_id: sig_at(0), bias_m: 0.0 });
                    s += 1;
                }
                let mut buf = [0u8; 260];
                let mut asm = Assembler::new(&mut buf, 0);
                assert!(c::encode(&mut asm, &v).is_ok());
                let off = asm.offset();
                let mut par = Parser::new(&buf, 0);
                match c::decode(&mut par) {
                    Ok(d) => {
                        assert!(d.len() == $satmax as usize);
                        assert!(par.offset() == off);
                        assert!(d[0].satellite_id == 0 && d[$satmax as usize - 1].satellite_id == $satmax - 1);
                    }
                    Err(_) => assert!(false),
                }
            }

            /// as many satellites as the identifier range allows, one entry each: Err or all come back
            #[kani::proof]
            #[kani::unwind(66)]
            pub fn all_satellites() {
                let mut v = List::new();
                let mut s = 0u8;
                while s <= $satmax {
                    v.push($entry { satellite_id: s, signal_id: sig_at(0), bias_m: 0.0 });
                    s += 1;
                }
                let mut buf = [0u8; 260];
                let mut asm = Assembler::new(&mut buf, 0);
                let r = c::encode(&mut asm, &v);
                let off = asm.offset();
                if r.is_ok() {
                    let mut par = Parser::new(&buf, 0);
                    match c::decode(&mut par) {
                        Ok(d) => {
                            assert!(d.len() == $satmax as usize + 1);
                            assert!(par.offset() == off);
                        }
                        Err(_) => assert!(false),
                    }
                }
            }
        }
    };
}

ssr_bias!(gps1059, df_msg1059_biases, Msg1059CodeBias, GpsSigId, SSR_GPS, 63, 6);
ssr_bias!(glo1065, df_msg1065_biases, Msg1065CodeBias, GloSigId, SSR_GLO, 31, 5);

macro_rules! group_h {
    ($name:ident, $m:ident, $a:literal, $b:literal, $c:literal) => {
        #[kani::proof]
        #[kani::unwind(66)]
        pub fn $name() {
            $m::group([$a, $b, $c]);
        }
    };
}
group_h!(g1059_737, gps1059, 7, 3, 7);
group_h!(g1059_377, gps1059, 3, 7, 7);
group_h!(g1059_773, gps1059, 7, 7, 3);
group_h!(g1059_555, gps1059, 5, 5, 5);
group_h!(g1059_desc, gps1059, 63, 31, 0);
group_h!(g1059_adj, gps1059, 0, 1, 2);
group_h!(g1065_737, glo1065, 7, 3, 7);
group_h!(g1065_377, glo1065, 3, 7, 7);
group_h!(g1065_desc, glo1065, 31, 15, 0);
group_h!(g1065_555, glo1065, 5, 5, 5);

/// The SSR signal table the 1059 codec uses is the standard one: every reference entry is written
/// with its reference number (concrete loop over the table) ...
#[kani::proof]
#[kani::unwind(66)]
pub fn ssr_table_known() {
    use rtcm_rs::msg::{GpsSigId, Msg1059CodeBias};
    use rtcm_rs::verif_hooks::dfs::df_msg1059_biases as c;
    let mut t = 0;
    while t < SSR_GPS.len() {
        let mut v = DataVec::<Msg1059CodeBias, 390>::new();
        v.push(Msg1059CodeBias { satellite_id: 1, signal_id: GpsSigId::new(SSR_GPS[t].1, SSR_GPS[t].2), bias_m: 0.0 });
        let mut buf = [0u8; 8];
        let mut asm = Assembler::new(&mut buf, 0);
        assert!(c::encode(&mut asm, &v).is_ok());
        assert!(asm.offset() == 6 + 6 + 5 + 19);
        assert!(get_bits(&buf, 12, 5) == 1);
        assert!(get_bits(&buf, 17, 5) == SSR_GPS[t].0 as u64);
        t += 1;
    }
}
/// ... and any descriptor outside the reference table is not written and not counted.
#[kani::proof]
#[kani::unwind(66)]
pub fn ssr_table_unknown() {
    use rtcm_rs::msg::{GpsSigId, Msg1059CodeBias};
    use rtcm_rs::verif_hooks::dfs::df_msg1059_biases as c;
    let band: u8 = kani::any();
    let attr: char = kani::any();
    kani::assume(table_id(SSR_GPS, band, attr).is_none());
    let mut v = DataVec::<Msg1059CodeBias, 390>::new();
    v.push(Msg1059CodeBias { satellite_id: 1, signal_id: GpsSigId::new(band, attr), bias_m: 0.0 });
    let mut buf = [0u8; 8];
    let mut asm = Assembler::new(&mut buf, 0);
    assert!(c::encode(&mut asm, &v).is_ok());
    assert!(asm.offset() == 6 + 6 + 5);
    assert!(get_bits(&buf, 12, 5) == 0);
}

/// 1230 with a concrete caller order of distinct recognised signals (symbolic order: the sort on
/// symbolic keys did not finish in 8 min) and symbolic biases: decoded sorted by signal.
pub fn glo_1230_order(order: &[usize]) {
    use rtcm_rs::msg::{GloSigId, Msg1230CodePhaseBias};
    use rtcm_rs::verif_hooks::dfs::df_msg1230_biases as c;
    const SIGS: [(u8, char); 4] = [(1, 'C'), (1, 'P'), (2, 'C'), (2, 'P')];
    let n = order.len();
    let k: [i16; 4] = kani::any();
    let mut v = DataVec::<Msg1230CodePhaseBias, 4>::new();
    let mut present = [false; 4];
    let mut val = [0i16; 4];
    let mut i = 0;
    while i < n {
        present[order[i]] = true;
        val[order[i]] = k[i];
        v.push(Msg1230CodePhaseBias { signal_id: GloSigId::new(SIGS[order[i]].0, SIGS[order[i]].1), bias_m: (k[i] as f32) * 0.02 });
        i += 1;
    }
    let mut buf = [0u8; 10];
    let off = {
        let mut asm = Assembler::new(&mut buf, 0);
        assert!(c::encode(&mut asm, &v).is_ok());
        asm.offset()
    };
    assert!(off == 4 + 16 * n);
    let mut par = Parser::new(&buf, 0);
    let d = match c::decode(&mut par) {
        Ok(d) => d,
        Err(_) => {
            assert!(false);
            return;
        }
    };
    assert!(d.len() == n && par.offset() == off);
    let mut j = 0;
    let mut s = 0;
    while s < 4 {
        if present[s] {
            assert!(get_bits(&buf, s, 1) == 1);
            assert!(d[j].signal_id == GloSigId::new(SIGS[s].0, SIGS[s].1));
            assert!(d[j].bias_m == (val[s] as f32) * 0.02);
            j += 1;
        } else {
            assert!(get_bits(&buf, s, 1) == 0);
        }
        s += 1;
    }
}
macro_rules! glo_1230_h {
    ($name:ident, $order:expr) => {
        #[kani::proof]
        #[kani::unwind(8)]
        pub fn $name() {
            glo_1230_order(&$order);
        }
    };
}
glo_1230_h!(glo_1230_empty, [0usize; 0]);
glo_1230_h!(glo_1230_3210, [3usize, 2, 1, 0]);
glo_1230_h!(glo_1230_0123, [0usize, 1, 2, 3]);
glo_1230_h!(glo_1230_2031, [2usize, 0, 3, 1]);
glo_1230_h!(glo_1230_30, [3usize, 0]);
glo_1230_h!(glo_1230_1, [1usize]);

/// 1230: an unrecognised signal is an error, never silently dropped
#[kani::proof]
#[kani::unwind(8)]
pub fn glo_1230_unknown() {
    use rtcm_rs::msg::{GloSigId, Msg1230CodePhaseBias};
    use rtcm_rs::verif_hooks::dfs::df_msg1230_biases as c;
    let band: u8 = kani::any();
    let attr: char = kani::any();
    let mut v = DataVec::<Msg1230CodePhaseBias, 4>::new();
    v.push(Msg1230CodePhaseBias { signal_id: GloSigId::new(band, attr), bias_m: 0.0 });
    let mut buf = [0u8; 4];
    let mut asm = Assembler::new(&mut buf, 0);
    let r = c::encode(&mut asm, &v);
    let known = table_id(SSR_GLO, band, attr).is_some();
    assert!(r.is_ok() == known);
}

include!("gen/c16_list.rs");
