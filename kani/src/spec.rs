//! Independent oracles. Nothing in this file calls into rtcm-rs: every function is a small,
//! direct transcription of the RTCM 10403 wire rules the properties quote, so that a harness
//! compares the real code with a second, differently written definition.
#![allow(dead_code)]

// ---------------------------------------------------------------------------------------------
// Bit fields (C07)
// ---------------------------------------------------------------------------------------------

/// Big-endian window over the first 11 bytes of a buffer (88 bits in the low bits of a u128).
pub fn window88(buf: &[u8; 11]) -> u128 {
    let mut w: u128 = 0;
    let mut i = 0;
    while i < 11 {
        w = (w << 8) | buf[i] as u128;
        i += 1;
    }
    w
}

/// `len` low bits set.
pub fn ones(len: usize) -> u128 {
    if len >= 128 {
        u128::MAX
    } else {
        (1u128 << len) - 1
    }
}

/// The window after storing `pat` (len bits, MSB first) at bit offset `off` (bit 0 = MSB of byte 0).
pub fn place88(w: u128, off: usize, len: usize, pat: u64) -> u128 {
    let sh = 88 - off - len;
    let m = ones(len) << sh;
    (w & !m) | (((pat as u128) & ones(len)) << sh)
}

/// The `len` bits found at bit offset `off` of the window.
pub fn extract88(w: u128, off: usize, len: usize) -> u64 {
    ((w >> (88 - off - len)) & ones(len)) as u64
}

/// Wire pattern of an unsigned value.
pub fn enc_unsigned(v: u64, len: usize) -> u64 {
    v & ones(len) as u64
}
/// Wire pattern of a two's complement value.
pub fn enc_twos(v: i64, len: usize) -> u64 {
    (v as u64) & ones(len) as u64
}
/// Wire pattern of a sign-magnitude value (|v| < 2^(len-1)).
pub fn enc_signmag(v: i64, len: usize) -> u64 {
    if v < 0 {
        (1u64 << (len - 1)) | ((-(v as i128)) as u64)
    } else {
        v as u64
    }
}
pub fn dec_unsigned(p: u64, _len: usize) -> u64 {
    p
}
pub fn dec_twos(p: u64, len: usize) -> i64 {
    if len == 64 {
        p as i64
    } else if (p >> (len - 1)) & 1 == 1 {
        (p as i128 - (1i128 << len)) as i64
    } else {
        p as i64
    }
}
/// Sign-magnitude: the negative-zero pattern reads as 0.
pub fn dec_signmag(p: u64, len: usize) -> i64 {
    let mag = (p & (ones(len - 1) as u64)) as i64;
    if (p >> (len - 1)) & 1 == 1 {
        -mag
    } else {
        mag
    }
}

// ---------------------------------------------------------------------------------------------
// CRC-24Q and the frame predicate (C03, C04, C05, C06, C09, C13)
// ---------------------------------------------------------------------------------------------

pub const CRC24Q_POLY: u32 = 0x1864CFB;

/// One bit of the CRC-24Q shift register: generator 0x1864CFB, MSB first.
pub fn crc24q_bit(mut reg: u32, bit: u32) -> u32 {
    reg ^= bit << 23;
    reg <<= 1;
    if reg & 0x100_0000 != 0 {
        reg ^= CRC24Q_POLY;
    }
    reg & 0xFF_FFFF
}

/// Eight shifts.
pub fn crc24q_byte(mut reg: u32, b: u8) -> u32 {
    let mut k = 0;
    while k < 8 {
        reg = crc24q_bit(reg, ((b >> (7 - k)) & 1) as u32);
        k += 1;
    }
    reg
}

/// CRC-24Q of a slice: zero initial value, no reflection, no final xor.
pub fn crc24q(data: &[u8]) -> u32 {
    let mut reg = 0u32;
    let mut i = 0;
    while i < data.len() {
        reg = crc24q_byte(reg, data[i]);
        i += 1;
    }
    reg
}

#[derive(Clone, Copy, PartialEq, Eq, Debug)]
pub enum Verdict {
    /// accepted, payload length L
    Accept(usize),
    Incomplete,
    NotValid,
}

/// The frame acceptance rule of property C03, on a slice.
pub fn spec_frame(s: &[u8]) -> Verdict {
    if s.len() < 6 {
        return Verdict::Incomplete;
    }
    if s[0] != 0xD3 {
        return Verdict::NotValid;
    }
    let l = (((s[1] & 3) as usize) << 8) | s[2] as usize;
    if s.len() < l + 6 {
        return Verdict::Incomplete;
    }
    let c = crc24q(&s[..l + 3]);
    let stored = ((s[l + 3] as u32) << 16) | ((s[l + 4] as u32) << 8) | s[l + 5] as u32;
    if c == stored {
        Verdict::Accept(l)
    } else {
        Verdict::NotValid
    }
}

/// Reference scanner of property C05, generic in the per-candidate verdict.
/// Returns (consumed, Some((start, L)) | None).
pub fn ref_scan<V: FnMut(usize, &[u8]) -> Verdict>(
    buf: &[u8],
    mut verdict: V,
) -> (usize, Option<(usize, usize)>) {
    let mut i = 0;
    while i < buf.len() {
        if buf[i] == 0xD3 {
            match verdict(i, &buf[i..]) {
                Verdict::Accept(l) => return (i + l + 6, Some((i, l))),
                Verdict::Incomplete => return (i, None),
                Verdict::NotValid => {}
            }
        }
        i += 1;
    }
    (buf.len(), None)
}

// ---------------------------------------------------------------------------------------------
// MSM signal tables, typed in from RTCM 10403.3 tables 3.5-91 ff. / RINEX 3 codes (C18, C10)
// ---------------------------------------------------------------------------------------------

pub const GPS: &[(u8, u8, char)] = &[
    (2, 1, 'C'),
    (3, 1, 'P'),
    (4, 1, 'W'),
    (8, 2, 'C'),
    (9, 2, 'P'),
    (10, 2, 'W'),
    (15, 2, 'S'),
    (16, 2, 'L'),
    (17, 2, 'X'),
    (22, 5, 'I'),
    (23, 5, 'Q'),
    (24, 5, 'X'),
    (30, 1, 'S'),
    (31, 1, 'L'),
    (32, 1, 'X'),
];
pub const GLO: &[(u8, u8, char)] = &[(2, 1, 'C'), (3, 1, 'P'), (8, 2, 'C'), (9, 2, 'P')];
pub const GAL: &[(u8, u8, char)] = &[
    (2, 1, 'C'),
    (3, 1, 'A'),
    (4, 1, 'B'),
    (5, 1, 'X'),
    (6, 1, 'Z'),
    (8, 6, 'C'),
    (9, 6, 'A'),
    (10, 6, 'B'),
    (11, 6, 'X'),
    (12, 6, 'Z'),
    (14, 7, 'I'),
    (15, 7, 'Q'),
    (16, 7, 'X'),
    (18, 8, 'I'),
    (19, 8, 'Q'),
    (20, 8, 'X'),
    (22, 5, 'I'),
    (23, 5, 'Q'),
    (24, 5, 'X'),
];
pub const SBAS: &[(u8, u8, char)] = &[(2, 1, 'C'), (22, 5, 'I'), (23, 5, 'Q'), (24, 5, 'X')];
pub const QZSS: &[(u8, u8, char)] = &[
    (2, 1, 'C'),
    (9, 6, 'S'),
    (10, 6, 'L'),
    (11, 6, 'X'),
    (15, 2, 'S'),
    (16, 2, 'L'),
    (17, 2, 'X'),
    (22, 5, 'I'),
    (23, 5, 'Q'),
    (24, 5, 'X'),
    (30, 1, 'S'),
    (31, 1, 'L'),
    (32, 1, 'X'),
];
pub const BDS: &[(u8, u8, char)] = &[
    (2, 2, 'I'),
    (3, 2, 'Q'),
    (4, 2, 'X'),
    (8, 6, 'I'),
    (9, 6, 'Q'),
    (10, 6, 'X'),
    (14, 7, 'I'),
    (15, 7, 'Q'),
    (16, 7, 'X'),
    (22, 5, 'D'),
    (23, 5, 'P'),
    (24, 5, 'X'),
    (25, 7, 'D'),
    (30, 1, 'D'),
    (31, 1, 'P'),
    (32, 1, 'X'),
];
pub const NAVIC: &[(u8, u8, char)] = &[(8, 9, 'A'), (22, 5, 'A')];

pub fn table_id(t: &[(u8, u8, char)], band: u8, attr: char) -> Option<u8> {
    let mut i = 0;
    while i < t.len() {
        if t[i].1 == band && t[i].2 == attr {
            return Some(t[i].0);
        }
        i += 1;
    }
    None
}
pub fn table_sig(t: &[(u8, u8, char)], id: u8) -> Option<(u8, char)> {
    let mut i = 0;
    while i < t.len() {
        if t[i].0 == id {
            return Some((t[i].1, t[i].2));
        }
        i += 1;
    }
    None
}

/// SSR code-bias signal tables (RTCM 10403.3 tables 3.5-105 GPS / 3.5-106 GLONASS).
pub const SSR_GPS: &[(u8, u8, char)] = &[
    (0, 1, 'C'),
    (1, 1, 'P'),
    (2, 1, 'W'),
    (5, 2, 'C'),
    (6, 2, 'D'),
    (7, 2, 'S'),
    (8, 2, 'L'),
    (9, 2, 'X'),
    (10, 2, 'P'),
    (11, 2, 'W'),
    (14, 5, 'I'),
    (15, 5, 'Q'),
];
pub const SSR_GLO: &[(u8, u8, char)] = &[(0, 1, 'C'), (1, 1, 'P'), (2, 2, 'C'), (3, 2, 'P')];

// ---------------------------------------------------------------------------------------------
// Text (C17, C20)
// ---------------------------------------------------------------------------------------------

/// ISO 8859-1 byte for a character per property C17: 1..=255 as is, everything else 0xA4.
pub fn latin1_byte(c: char) -> u8 {
    let code = c as u32;
    if code >= 1 && code <= 255 {
        code as u8
    } else {
        0xA4
    }
}

/// UTF-8 length of a scalar value.
pub fn utf8_len(c: char) -> usize {
    let code = c as u32;
    if code < 0x80 {
        1
    } else if code < 0x800 {
        2
    } else if code < 0x10000 {
        3
    } else {
        4
    }
}

/// Reference UTF-8 validator (Unicode 15 table 3-7), returns true iff `s` is well formed.
pub fn utf8_valid(s: &[u8]) -> bool {
    let mut i = 0;
    while i < s.len() {
        let b0 = s[i];
        if b0 < 0x80 {
            i += 1;
        } else if b0 >= 0xC2 && b0 <= 0xDF {
            if i + 1 >= s.len() || s[i + 1] & 0xC0 != 0x80 {
                return false;
            }
            i += 2;
        } else if b0 >= 0xE0 && b0 <= 0xEF {
            if i + 2 >= s.len() {
                return false;
            }
            let b1 = s[i + 1];
            let lo = if b0 == 0xE0 { 0xA0 } else { 0x80 };
            let hi = if b0 == 0xED { 0x9F } else { 0xBF };
            if b1 < lo || b1 > hi || s[i + 2] & 0xC0 != 0x80 {
                return false;
            }
            i += 3;
        } else if b0 >= 0xF0 && b0 <= 0xF4 {
            if i + 3 >= s.len() {
                return false;
            }
            let b1 = s[i + 1];
            let lo = if b0 == 0xF0 { 0x90 } else { 0x80 };
            let hi = if b0 == 0xF4 { 0x8F } else { 0xBF };
            if b1 < lo || b1 > hi || s[i + 2] & 0xC0 != 0x80 || s[i + 3] & 0xC0 != 0x80 {
                return false;
            }
            i += 4;
        } else {
            return false;
        }
    }
    true
}
