//! C03 — a frame is accepted iff preamble, length and CRC-24Q check out.
//!  short_N : every slice of <= N bytes against the bitwise CRC-24Q frame predicate
//!  crc_step: one byte step of the real crc_any object == 8 shifts of the spec register, from every
//!            24-bit state (all states reached: the 3-byte-prefix -> state map is proved injective)
//!  long    : every declared length 0..=1023 on a 1040-byte buffer with the CRC arithmetic stubbed
//!            (records which bytes are digested, returns an arbitrary 24-bit value)
use crate::spec::*;
use crate::util::*;
use rtcm_rs::MessageFrame;

pub fn check_short<const N: usize>() {
    let buf: [u8; N] = kani::any();
    let len: usize = kani::any();
    kani::assume(len <= N);
    let s = &buf[..len];
    let want = spec_frame(s);
    match MessageFrame::new(s) {
        Ok(f) => match want {
            Verdict::Accept(l) => {
                assert!(f.frame_len() == l + 6);
                assert!(f.data_len() == l);
                assert!(f.crc() == crc24q(&s[..l + 3]));
                let d = f.data();
                let fd = f.frame_data();
                assert!(d.len() == l && fd.len() == l + 6);
                assert!(core::ptr::eq(fd.as_ptr(), buf.as_ptr()));
                assert!(core::ptr::eq(d.as_ptr(), buf[3..].as_ptr()));
                let mut i = 0;
                while i < l + 6 {
                    assert!(fd[i] == buf[i]);
                    i += 1;
                }
                kani::cover!(l == 0);
                kani::cover!(l == 1 && len > 7);
                kani::cover!(l == N - 6);
                kani::cover!(buf[1] & 0xFC != 0);
            }
            _ => assert!(false),
        },
        Err(RtcmError::Incomplete) => {
            assert!(want == Verdict::Incomplete);
            kani::cover!(len >= 6);
        }
        Err(RtcmError::NotValid) => {
            assert!(want == Verdict::NotValid);
            kani::cover!(buf[0] == 0xD3);
        }
        Err(_) => assert!(false),
    }
}

#[kani::proof]
#[kani::unwind(12)]
pub fn short_10() {
    check_short::<10>();
}
#[kani::proof]
#[kani::unwind(14)]
pub fn short_12() {
    check_short::<12>();
}
#[kani::proof]
#[kani::unwind(18)]
pub fn short_16() {
    check_short::<16>();
}

#[kani::proof]
#[kani::unwind(10)]
pub fn crc_step() {
    use crc_any::CRC;
    let p: [u8; 3] = kani::any();
    let q: [u8; 3] = kani::any();
    let b: u8 = kani::any();
    let mut c = CRC::crc24lte_a();
    c.digest(&p);
    let s0 = c.get_crc();
    c.digest(&[b]);
    let s1 = c.get_crc();
    assert!(s0 < (1 << 24) && s1 < (1 << 24));
    // the real table-driven step equals eight shifts of the generator 0x1864CFB
    assert!(s1 as u32 == crc24q_byte(s0 as u32, b));
    // prefix -> state is injective on 2^24 prefixes, hence onto all 2^24 states
    let mut d = CRC::crc24lte_a();
    d.digest(&q);
    if d.get_crc() == s0 {
        assert!(p == q);
    }
    kani::cover!(s0 == 0xFFFFFF);
}

// ---- long frames with the CRC arithmetic stubbed (stubs live in util.rs) ---------------------------

/// Shared by C03 (acceptance for every L) and C13 (nothing depends on the bytes after the frame).
#[kani::proof]
#[kani::unwind(4)]
#[kani::stub(crc_any::CRCu32::digest, stub_digest)]
#[kani::stub(crc_any::CRCu32::get_crc, stub_get_crc)]
pub fn long() {
    let mut buf: [u8; 1040] = kani::any();
    let len: usize = kani::any();
    kani::assume(len <= 1040);
    let mut crc: u32 = kani::any();
    kani::assume(crc < (1 << 24));
    let stubbed = crc_is_stubbed();
    let l = (((buf[1] & 3) as usize) << 8) | buf[2] as usize;
    if !stubbed && len >= l + 6 {
        // native replay of a counterexample: realise the stub's arbitrary CRC value with the real
        // CRC while keeping the relation "stored == computed" the solver chose
        let stored = ((buf[l + 3] as u32) << 16) | ((buf[l + 4] as u32) << 8) | buf[l + 5] as u32;
        let real = crc24q(&buf[..l + 3]);
        if stored == crc {
            buf[l + 3] = (real >> 16) as u8;
            buf[l + 4] = (real >> 8) as u8;
            buf[l + 5] = real as u8;
        } else if stored == real {
            buf[l + 5] ^= 1;
        }
        crc = real;
    }
    unsafe {
        CRC_VAL = crc;
        DIG_CALLS = 0;
    }
    let r = MessageFrame::new(&buf[..len]);
    if len < 6 {
        assert!(matches!(r, Err(RtcmError::Incomplete)));
    } else if buf[0] != 0xD3 {
        assert!(matches!(r, Err(RtcmError::NotValid)));
    } else if len < l + 6 {
        assert!(matches!(r, Err(RtcmError::Incomplete)));
    } else {
        if stubbed {
            unsafe {
                assert!(DIG_CALLS == 1);
                assert!(core::ptr::eq(DIG_PTR, buf.as_ptr()));
                assert!(DIG_LEN == l + 3);
            }
        }
        let stored = ((buf[l + 3] as u32) << 16) | ((buf[l + 4] as u32) << 8) | buf[l + 5] as u32;
        match r {
            Ok(f) => {
                assert!(stored == crc);
                assert!(f.frame_len() == l + 6 && f.data_len() == l && f.crc() == crc);
                assert!(core::ptr::eq(f.frame_data().as_ptr(), buf.as_ptr()));
                assert!(core::ptr::eq(f.data().as_ptr(), buf[3..].as_ptr()));
                assert!(f.data().len() == l && f.frame_data().len() == l + 6);
                // C13: the message number is a function of the frame's own bytes
                if l >= 2 {
                    assert!(f.message_number() == Some(((buf[3] as u16) << 4) | ((buf[4] as u16) >> 4)));
                } else {
                    assert!(f.message_number().is_none());
                }
                kani::cover!(l == 1023);
                kani::cover!(l == 0 && len > 8);
                kani::cover!(l == 1 && len > 8);
                kani::cover!(l == 2 && len == 8);
            }
            Err(RtcmError::NotValid) => assert!(stored != crc),
            Err(_) => assert!(false),
        }
    }
}
