//! Small helpers shared by harnesses.
pub use rtcm_rs::rtcm_error::RtcmError;
pub use rtcm_rs::verif_hooks::bit_value::*;
pub use rtcm_rs::verif_hooks::{Assembler, Parser};

pub fn is_overflow<T>(r: &Result<T, RtcmError>) -> bool {
    matches!(r, Err(RtcmError::BufferOverflow))
}
