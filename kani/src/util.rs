//! Small helpers shared by harnesses.
pub use rtcm_rs::rtcm_error::RtcmError;
pub use rtcm_rs::verif_hooks::bit_value::*;
pub use rtcm_rs::verif_hooks::{Assembler, Parser};

pub fn is_overflow<T>(r: &Result<T, RtcmError>) -> bool {
    matches!(r, Err(RtcmError::BufferOverflow))
}

/// Overwrite `len` bits at bit offset `off` (bit 0 = MSB of byte 0) with the low bits of `val`.
pub fn set_bits(buf: &mut [u8], off: usize, len: usize, val: u64) {
    let mut i = 0;
    while i < len {
        let bit = ((val >> (len - 1 - i)) & 1) as u8;
        let pos = off + i;
        let mask = 0x80u8 >> (pos % 8);
        if bit == 1 {
            buf[pos / 8] |= mask;
        } else {
            buf[pos / 8] &= !mask;
        }
        i += 1;
    }
}
pub fn get_bits(buf: &[u8], off: usize, len: usize) -> u64 {
    let mut v = 0u64;
    let mut i = 0;
    while i < len {
        let pos = off + i;
        v = (v << 1) | ((buf[pos / 8] >> (7 - pos % 8)) & 1) as u64;
        i += 1;
    }
    v
}

/// Reference replacement for core::str::from_utf8 under `-Z stubbing` (C17/C20/C02-1029): std's
/// validator works on usize-aligned blocks with pointer-alignment arithmetic that CBMC's symbolic
/// execution does not finish. Same contract: Ok(the same bytes as str) iff well-formed UTF-8.
pub fn from_utf8_ref(v: &[u8]) -> Result<&str, core::str::Utf8Error> {
    if crate::spec::utf8_valid(v) {
        Ok(unsafe { core::str::from_utf8_unchecked(v) })
    } else {
        // obtain a genuine Utf8Error value without running the real validator on symbolic data
        Err(utf8_error())
    }
}
fn utf8_error() -> core::str::Utf8Error {
    // from_utf8_mut is a separate entry point (not stubbed) and the input is one concrete byte
    let mut bad = [0xFFu8];
    match core::str::from_utf8_mut(&mut bad) {
        Err(e) => e,
        Ok(_) => unreachable!(),
    }
}

// ---- long frames with the CRC arithmetic stubbed ------------------------------------------------
pub static mut DIG_PTR: *const u8 = core::ptr::null();
pub static mut DIG_LEN: usize = 0;
pub static mut DIG_CALLS: usize = 0;
pub static mut CRC_VAL: u32 = 0;

pub fn stub_digest<T: ?Sized + AsRef<[u8]>>(_this: &mut crc_any::CRCu32, data: &T) {
    unsafe {
        DIG_CALLS += 1;
        DIG_PTR = data.as_ref().as_ptr();
        DIG_LEN = data.as_ref().len();
    }
}
pub fn stub_get_crc(_this: &crc_any::CRCu32) -> u32 {
    unsafe { CRC_VAL }
}

/// True when the `-Z stubbing` stubs are in effect (symbolic run); false in a native replay, where
/// Kani's playback does not apply stubs and the real CRC runs.
pub fn crc_is_stubbed() -> bool {
    unsafe {
        CRC_VAL = 0x123456;
    }
    let c = crc_any::CRCu32::crc24lte_a();
    c.get_crc() == 0x123456
}

