//! C06 — frame delivery does not depend on how the stream is split into chunks.
//! Chain (DESIGN.md C06): real scanner == reference scanner over the real verdict (c05::scan_N, part
//! of this check's plan); the real verdict has the abstract shape and never changes when the slice is
//! extended (verdict_shape_N + c03::long); the reference scanner over an abstract verdict of that
//! shape is chunk independent (chunk_* below: spec-only, so streams can be long and every declared
//! length 0..=1023 is covered).
use crate::spec::*;
use crate::util::*;
use rtcm_rs::MessageFrame;

pub fn verdict_shape<const N: usize>() {
    let buf: [u8; N] = kani::any();
    let len1: usize = kani::any();
    let len2: usize = kani::any();
    kani::assume(len1 <= len2 && len2 <= N);
    let v1 = crate::c05::verdict_real(&buf[..len1]);
    let v2 = crate::c05::verdict_real(&buf[..len2]);
    let l = (((buf[1] & 3) as usize) << 8) | buf[2] as usize;
    // shape on one slice
    if len1 < 6 {
        assert!(v1 == Verdict::Incomplete);
    } else if buf[0] != 0xD3 {
        assert!(v1 == Verdict::NotValid);
    } else if len1 < l + 6 {
        assert!(v1 == Verdict::Incomplete);
    } else {
        assert!(v1 == Verdict::Accept(l) || v1 == Verdict::NotValid);
        // a complete candidate's verdict is final: more data does not change it
        assert!(v2 == v1);
        kani::cover!(v1 == Verdict::Accept(l) && len2 > len1);
        kani::cover!(v1 == Verdict::NotValid && len2 > len1);
    }
}
#[kani::proof]
#[kani::unwind(12)]
pub fn verdict_shape_10() {
    verdict_shape::<10>();
}

// ---- chunk lemma on the reference scanner over an abstract verdict --------------------------------

#[derive(Clone, Copy)]
pub struct AbsStream<const M: usize> {
    pub is_d3: [bool; M],
    pub l: [u16; M],
    pub matches: [bool; M],
    pub len: usize,
}

impl<const M: usize> AbsStream<M> {
    pub fn any() -> Self {
        let s = AbsStream { is_d3: kani::any(), l: kani::any(), matches: kani::any(), len: kani::any() };
        kani::assume(s.len <= M);
        let mut i = 0;
        while i < M {
            kani::assume(s.l[i] <= 1023);
            i += 1;
        }
        s
    }
    /// the reference scanner of C05 on stream[start..end] with the abstract verdict
    pub fn scan(&self, start: usize, end: usize) -> (usize, Option<(usize, usize)>) {
        let mut i = start;
        while i < end {
            if self.is_d3[i] {
                let avail = end - i;
                let l = self.l[i] as usize;
                if avail < 6 || avail < l + 6 {
                    return (i - start, None);
                }
                if self.matches[i] {
                    return (i - start + l + 6, Some((i, l)));
                }
            }
            i += 1;
        }
        (end - start, None)
    }
}

pub const MAXF: usize = 5;
#[derive(Clone, Copy, PartialEq, Eq)]
pub struct Log {
    pub n: usize,
    pub at: [(usize, usize); MAXF],
}

/// caller protocol: scan what is buffered, drop `consumed`, repeat while frames come out
pub fn drain<const M: usize>(s: &AbsStream<M>, start: &mut usize, end: usize, log: &mut Log, rounds: usize) {
    let mut r = 0;
    while r < rounds {
        let (c, f) = s.scan(*start, end);
        *start += c;
        match f {
            Some(fr) => {
                assert!(log.n < MAXF);
                log.at[log.n] = fr;
                log.n += 1;
            }
            None => return,
        }
        r += 1;
    }
    // rounds = floor(M/6)+1 is enough: the last round cannot deliver a frame
    assert!(false);
}

pub fn chunk_one<const M: usize>(rounds: usize) {
    let s = AbsStream::<M>::any();
    let cut: usize = kani::any();
    kani::assume(cut <= s.len);
    let mut log_a = Log { n: 0, at: [(0, 0); MAXF] };
    let mut log_b = log_a;
    let mut a = 0usize;
    drain(&s, &mut a, cut, &mut log_a, rounds);
    drain(&s, &mut a, s.len, &mut log_a, rounds);
    let mut b = 0usize;
    drain(&s, &mut b, s.len, &mut log_b, rounds);
    assert!(a == b);
    assert!(log_a.n == log_b.n);
    let mut i = 0;
    while i < MAXF {
        if i < log_a.n {
            assert!(log_a.at[i] == log_b.at[i]);
        }
        i += 1;
    }
    kani::cover!(log_a.n == 2 && cut > 0 && cut < s.len);
    kani::cover!(log_a.n == 1 && a < s.len);
}

pub fn chunk_two<const M: usize>(rounds: usize) {
    let s = AbsStream::<M>::any();
    let c1: usize = kani::any();
    let c2: usize = kani::any();
    kani::assume(c1 <= c2 && c2 <= s.len);
    let mut log_a = Log { n: 0, at: [(0, 0); MAXF] };
    let mut log_b = log_a;
    let mut a = 0usize;
    drain(&s, &mut a, c1, &mut log_a, rounds);
    drain(&s, &mut a, c2, &mut log_a, rounds);
    drain(&s, &mut a, s.len, &mut log_a, rounds);
    let mut b = 0usize;
    drain(&s, &mut b, s.len, &mut log_b, rounds);
    assert!(a == b && log_a.n == log_b.n);
    let mut i = 0;
    while i < MAXF {
        if i < log_a.n {
            assert!(log_a.at[i] == log_b.at[i]);
        }
        i += 1;
    }
    kani::cover!(log_a.n == 2 && c1 > 0 && c1 < c2 && c2 < s.len);
}

pub fn chunk_bytes<const M: usize>(rounds: usize) {
    let s = AbsStream::<M>::any();
    let mut log_a = Log { n: 0, at: [(0, 0); MAXF] };
    let mut log_b = log_a;
    let mut a = 0usize;
    let mut fed = 0usize;
    while fed < M {
        if fed < s.len {
            fed += 1;
            drain(&s, &mut a, fed, &mut log_a, rounds);
        } else {
            fed = M;
        }
    }
    let mut b = 0usize;
    drain(&s, &mut b, s.len, &mut log_b, rounds);
    assert!(a == b && log_a.n == log_b.n);
    let mut i = 0;
    while i < MAXF {
        if i < log_a.n {
            assert!(log_a.at[i] == log_b.at[i]);
        }
        i += 1;
    }
    kani::cover!(log_a.n == 2);
}

#[kani::proof]
#[kani::unwind(14)]
pub fn chunk_one_12() {
    chunk_one::<12>(3);
}
#[kani::proof]
#[kani::unwind(20)]
pub fn chunk_one_18() {
    chunk_one::<18>(4);
}
#[kani::proof]
#[kani::unwind(26)]
pub fn chunk_one_24() {
    chunk_one::<24>(5);
}
#[kani::proof]
#[kani::unwind(14)]
pub fn chunk_two_12() {
    chunk_two::<12>(3);
}
#[kani::proof]
#[kani::unwind(20)]
pub fn chunk_two_18() {
    chunk_two::<18>(4);
}
#[kani::proof]
#[kani::unwind(14)]
pub fn chunk_bytes_12() {
    chunk_bytes::<12>(3);
}

/// Direct form on the real scanner, small: a 7-byte stream, one cut, real calls only.
#[kani::proof]
#[kani::unwind(9)]
pub fn real_small_7() {
    use rtcm_rs::next_msg_frame;
    let buf: [u8; 7] = kani::any();
    let cut: usize = kani::any();
    kani::assume(cut <= 7);
    // chunked: scan [0..cut], drop consumed (a frame can only be the L=0/L=1 frame), then the rest
    let (c1, f1) = next_msg_frame(&buf[..cut]);
    let mut start = c1;
    let mut n_a = if f1.is_some() { 1 } else { 0 };
    let first_a = f1.map(|f| (c1 - f.frame_len(), f.frame_len()));
    let (c2, f2) = next_msg_frame(&buf[start..]);
    let second = f2.map(|f| (start + c2 - f.frame_len(), f.frame_len()));
    start += c2;
    if second.is_some() {
        n_a += 1;
        // a 7-byte stream holds at most one frame
        let (c3, f3) = next_msg_frame(&buf[start..]);
        assert!(f3.is_none());
        start += c3;
    }
    // one shot
    let (d1, g1) = next_msg_frame(&buf[..]);
    let mut pos = d1;
    let mut n_b = 0;
    let mut first_b = None;
    if let Some(g) = g1 {
        n_b = 1;
        first_b = Some((d1 - g.frame_len(), g.frame_len()));
        let (d2, g2) = next_msg_frame(&buf[pos..]);
        assert!(g2.is_none());
        pos += d2;
    }
    assert!(n_a == n_b);
    assert!(start == pos);
    if n_a == 1 {
        let fa = if first_a.is_some() { first_a } else { second };
        assert!(fa == first_b);
        kani::cover!(cut > 0 && cut < 6);
    }
}
