//! C07 — bit-field packing is exact. One harness per (carrier, width): the width is concrete so the
//! per-byte loop folds; offset (0..16), value and background are symbolic.
//!
//! put:   window after == spec placement of the spec wire pattern, cursor advanced by len
//! parse: on an ARBITRARY buffer, result == spec decoding of the len bits found there (so the
//!        sign-magnitude negative-zero pattern is included), cursor advanced by len
//! ovf:   with a symbolic buffer length shorter than off+len: BufferOverflow, nothing changed.
use crate::spec::*;
use crate::util::*;

macro_rules! c07_common {
    ($name:ident, $it:ident, $vt:ty, $len:literal, $in_range:expr, $enc:expr, $dec:expr) => {
        pub mod $name {
            use super::*;
            #[kani::proof]
            #[kani::unwind(12)]
            pub fn put() {
                let mut buf: [u8; 11] = kani::any();
                let w0 = window88(&buf);
                let off: usize = kani::any();
                kani::assume(off < 16);
                let v: $vt = kani::any();
                kani::assume(($in_range)(v));
                let mut asm = Assembler::new(&mut buf, off);
                let r = asm.put::<$it>(v, $len);
                assert!(r.is_ok());
                assert!(asm.offset() == off + $len);
                let w1 = window88(&buf);
                assert!(w1 == place88(w0, off, $len, ($enc)(v)));
                kani::cover!(off == 15);
            }
            #[kani::proof]
            #[kani::unwind(12)]
            pub fn parse() {
                let buf: [u8; 11] = kani::any();
                let w0 = window88(&buf);
                let off: usize = kani::any();
                kani::assume(off < 16);
                let mut par = Parser::new(&buf, off);
                let r = par.parse::<$it>($len);
                let p = extract88(w0, off, $len);
                match r {
                    Ok(v) => {
                        let want: $vt = ($dec)(p);
                        assert!(v == want);
                    }
                    Err(_) => assert!(false),
                }
                assert!(par.offset() == off + $len);
                kani::cover!(off == 9 && p == 1u64 << ($len - 1));
            }
            #[kani::proof]
            #[kani::unwind(12)]
            pub fn roundtrip() {
                // every representable value written at any offset reads back (put then parse)
                let mut buf: [u8; 11] = kani::any();
                let off: usize = kani::any();
                kani::assume(off < 16);
                let v: $vt = kani::any();
                kani::assume(($in_range)(v));
                let mut asm = Assembler::new(&mut buf, off);
                assert!(asm.put::<$it>(v, $len).is_ok());
                let mut par = Parser::new(&buf, off);
                match par.parse::<$it>($len) {
                    Ok(x) => assert!(x == v),
                    Err(_) => assert!(false),
                }
            }
            #[kani::proof]
            #[kani::unwind(12)]
            pub fn overflow() {
                let mut buf: [u8; 11] = kani::any();
                let orig = buf;
                let blen: usize = kani::any();
                kani::assume(blen <= 11);
                let off: usize = kani::any();
                kani::assume(off <= 88);
                kani::assume(off + $len > blen * 8);
                let v: $vt = kani::any();
                {
                    let mut asm = Assembler::new(&mut buf[..blen], off);
                    let r = asm.put::<$it>(v, $len);
                    assert!(is_overflow(&r));
                    assert!(asm.offset() == off);
                }
                let mut i = 0;
                while i < 11 {
                    assert!(buf[i] == orig[i]);
                    i += 1;
                }
                let mut par = Parser::new(&buf[..blen], off);
                let r = par.parse::<$it>($len);
                assert!(is_overflow(&r));
                assert!(par.offset() == off);
                kani::cover!(blen == 0);
                kani::cover!(blen == 11 && off + $len == 89);
            }
        }
    };
}

macro_rules! c07_u {
    ($name:ident, $it:ident, $vt:ty, $len:literal) => {
        c07_common!(
            $name,
            $it,
            $vt,
            $len,
            |v: $vt| (v as u128) <= ones($len),
            |v: $vt| enc_unsigned(v as u64, $len),
            |p: u64| dec_unsigned(p, $len) as $vt
        );
    };
}
macro_rules! c07_s {
    ($name:ident, $it:ident, $vt:ty, $len:literal) => {
        c07_common!(
            $name,
            $it,
            $vt,
            $len,
            |v: $vt| (v as i128) >= -(1i128 << ($len - 1)) && (v as i128) < (1i128 << ($len - 1)),
            |v: $vt| enc_twos(v as i64, $len),
            |p: u64| dec_twos(p, $len) as $vt
        );
    };
}
macro_rules! c07_sm {
    ($name:ident, $it:ident, $vt:ty, $len:literal) => {
        c07_common!(
            $name,
            $it,
            $vt,
            $len,
            |v: $vt| (v as i128) > -(1i128 << ($len - 1)) && (v as i128) < (1i128 << ($len - 1)),
            |v: $vt| enc_signmag(v as i64, $len),
            |p: u64| dec_signmag(p, $len) as $vt
        );
    };
}

include!("gen/c07_list.rs");
