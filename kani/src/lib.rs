//! Kani proof harnesses for rtcm-rs (see /verif/DESIGN.md). Static harness code lives in this
//! directory; everything that depends on the repository's tables (data fields, message layouts,
//! feature list) is regenerated into `src/gen/` from /repo's working tree by tools/gen.py on every
//! run and included below.
#![allow(unused_imports, unused_macros, dead_code, non_snake_case, clippy::all)]

pub mod spec;

#[cfg(kani)]
pub mod util;

#[cfg(all(kani, feature = "c07"))]
pub mod c07;
#[cfg(all(kani, feature = "c03"))]
pub mod c03;
#[cfg(all(kani, feature = "c18"))]
pub mod c18;
#[cfg(all(kani, feature = "c13"))]
pub mod c13;
#[cfg(all(kani, feature = "c04"))]
pub mod c04;
#[cfg(all(kani, any(feature = "c05", feature = "c06")))]
pub mod c05;
#[cfg(all(kani, feature = "c06"))]
pub mod c06;
#[cfg(all(kani, feature = "c08"))]
pub mod c08;
#[cfg(all(kani, feature = "c02"))]
pub mod c02 {
    include!("gen/c02_list.rs");
}
#[cfg(all(kani, feature = "c09"))]
pub mod c09;
#[cfg(all(kani, feature = "c09"))]
pub mod c09gen {
    include!("gen/c09_list.rs");
}
#[cfg(all(kani, feature = "c01"))]
pub mod c01;
#[cfg(all(kani, feature = "c01"))]
pub mod c01gen {
    include!("gen/c01_list.rs");
}
#[cfg(all(kani, feature = "c14"))]
pub mod c14;
#[cfg(all(kani, feature = "c17"))]
pub mod c17;
#[cfg(all(kani, feature = "c10"))]
pub mod c10;
#[cfg(all(kani, feature = "c10"))]
pub mod c10gen {
    include!("gen/c10_list.rs");
}
#[cfg(all(kani, feature = "c12"))]
pub mod c12;
#[cfg(all(kani, feature = "c16"))]
pub mod c16;
#[cfg(all(kani, feature = "c15"))]
pub mod c15gen {
    include!("gen/c15_list.rs");
}
#[cfg(all(kani, feature = "c20"))]
pub mod c20;
