//! C09 — encoding is total and every emitted frame is well formed.
use crate::util::*;
use rtcm_rs::{Message, MessageBuilder, MessageFrame};

/// Build `msg` with a fresh builder; no panic may occur (Kani's checks); a returned frame must be
/// well formed. `must_err`: this input class has to be refused.
pub fn check_build(msg: &Message, number: u16, must_err: bool) {
    let crc: u32 = kani::any();
    kani::assume(crc < (1 << 24));
    let stubbed = crc_is_stubbed();
    unsafe {
        CRC_VAL = crc;
        DIG_CALLS = 0;
    }
    let mut b = MessageBuilder::new();
    match b.build_message(msg) {
        Ok(frame) => {
            assert!(!must_err);
            let len = frame.len();
            assert!(len >= 8 && len <= 1029);
            assert!(frame[0] == 0xD3);
            assert!(frame[1] & 0xFC == 0);
            assert!(((((frame[1] & 3) as usize) << 8) | frame[2] as usize) == len - 6);
            assert!((((frame[3] as u16) << 4) | ((frame[4] as u16) >> 4)) == number);
            if stubbed {
                unsafe {
                    assert!(DIG_CALLS == 1);
                    assert!(core::ptr::eq(DIG_PTR, frame.as_ptr()));
                    assert!(DIG_LEN == len - 3);
                }
                let stored = ((frame[len - 3] as u32) << 16) | ((frame[len - 2] as u32) << 8) | frame[len - 1] as u32;
                assert!(stored == crc);
            } else {
                // native replay: the real CRC ran; an independent parse of the frame must accept it
                match MessageFrame::new(frame) {
                    Ok(f) => assert!(f.frame_len() == len),
                    Err(_) => assert!(false),
                }
            }
            kani::cover!(true);
        }
        Err(_) => {}
    }
}

/// Encode through the message codec the builder dispatches to (the builder's own 108-arm dispatch
/// makes every harness pay for all encoders; its arms are checked structurally on the MIR by C14's
/// dispatch analysis and through `frame_*` harnesses). No panic may occur; an accepted value must
/// fit the 1023-byte payload.
pub fn check_encode<F: FnOnce(&mut Assembler) -> Result<(), RtcmError>>(number: u16, must_err: bool, enc: F) {
    let mut data = [0u8; 1023];
    let mut asm = Assembler::new(&mut data, 0);
    assert!(asm.put::<U16>(number, 12).is_ok());
    let r = enc(&mut asm);
    match r {
        Ok(()) => {
            assert!(!must_err);
            assert!(asm.offset() >= 12 && asm.offset() <= 1023 * 8);
            kani::cover!(true);
        }
        Err(_) => {}
    }
}

/// One data field on an arbitrary input: no panic; Ok advances the cursor by exactly the field width,
/// Err leaves it where it was.
pub fn check_field<F: FnOnce(&mut Assembler) -> Result<(), RtcmError>>(len: usize, enc: F) {
    let mut data = [0u8; 10];
    let mut asm = Assembler::new(&mut data, 3);
    match enc(&mut asm) {
        Ok(()) => {
            assert!(asm.offset() == 3 + len);
            kani::cover!(true);
        }
        Err(_) => assert!(asm.offset() == 3),
    }
}

#[kani::proof]
#[kani::unwind(4)]
pub fn no_wire_form() {
    let mut b = MessageBuilder::new();
    assert!(matches!(b.build_message(&Message::Empty), Err(RtcmError::EncodingNotSupported)));
    let mut b = MessageBuilder::new();
    assert!(matches!(b.build_message(&Message::Corrupt), Err(RtcmError::EncodingNotSupported)));
    let mut b = MessageBuilder::new();
    let n: u16 = kani::any();
    let m = Message::MsgNotSupported(rtcm_rs::msg::message::MsgNotSupportedT { message_number: n });
    assert!(matches!(b.build_message(&m), Err(RtcmError::EncodingNotSupported)));
}
