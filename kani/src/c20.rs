//! C20 — serde round trip through a minimal self-describing, non-allocating back end.
//! `Tape` records the serde data-model events (tokens) a value produces; `TapeDe` replays them into
//! the Deserialize impl. Strings are copied into the tape (as a real format would do), so the
//! hand-written Serialize/Deserialize impls of Df88591String and ArrayString run end to end.
use crate::util::*;
use sd::de::{self, DeserializeSeed, EnumAccess, SeqAccess, VariantAccess, Visitor};
use sd::ser::{self, Serialize};
use sd::Deserialize;

#[derive(Clone, Copy, PartialEq, Debug)]
pub enum Tok {
    Bool(bool),
    U8(u8),
    U16(u16),
    U32(u32),
    U64(u64),
    I8(i8),
    I16(i16),
    I32(i32),
    I64(i64),
    F32(u32),
    F64(u64),
    Char(char),
    Str(usize, usize),
    None,
    Some,
    Unit,
    Seq(usize),
    Tuple(usize),
    NewtypeStruct,
    Variant(u32),
}

pub const NT: usize = 32;
pub const NB: usize = 32;
pub struct Tape {
    pub toks: [Tok; NT],
    pub n: usize,
    pub bytes: [u8; NB],
    pub nb: usize,
}
impl Tape {
    pub fn new() -> Self {
        Tape { toks: [Tok::Unit; NT], n: 0, bytes: [0; NB], nb: 0 }
    }
    fn push(&mut self, t: Tok) -> Result<(), TErr> {
        if self.n >= NT {
            return Err(TErr);
        }
        self.toks[self.n] = t;
        self.n += 1;
        Ok(())
    }
}

#[derive(Debug)]
pub struct TErr;
impl core::fmt::Display for TErr {
    fn fmt(&self, f: &mut core::fmt::Formatter<'_>) -> core::fmt::Result {
        f.write_str("tape error")
    }
}
impl ser::StdError for TErr {}
impl ser::Error for TErr {
    fn custom<T: core::fmt::Display>(_msg: T) -> Self {
        TErr
    }
}
impl de::Error for TErr {
    fn custom<T: core::fmt::Display>(_msg: T) -> Self {
        TErr
    }
}

macro_rules! ser_prim {
    ($f:ident, $t:ty, $tok:expr) => {
        fn $f(self, v: $t) -> Result<(), TErr> {
            self.push($tok(v))
        }
    };
}

impl<'a> ser::Serializer for &'a mut Tape {
    type Ok = ();
    type Error = TErr;
    type SerializeSeq = Self;
    type SerializeTuple = Self;
    type SerializeTupleStruct = Self;
    type SerializeTupleVariant = Self;
    type SerializeMap = ser::Impossible<(), TErr>;
    type SerializeStruct = Self;
    type SerializeStructVariant = Self;
    ser_prim!(serialize_bool, bool, Tok::Bool);
    ser_prim!(serialize_u8, u8, Tok::U8);
    ser_prim!(serialize_u16, u16, Tok::U16);
    ser_prim!(serialize_u32, u32, Tok::U32);
    ser_prim!(serialize_u64, u64, Tok::U64);
    ser_prim!(serialize_i8, i8, Tok::I8);
    ser_prim!(serialize_i16, i16, Tok::I16);
    ser_prim!(serialize_i32, i32, Tok::I32);
    ser_prim!(serialize_i64, i64, Tok::I64);
    ser_prim!(serialize_char, char, Tok::Char);
    fn serialize_f32(self, v: f32) -> Result<(), TErr> {
        self.push(Tok::F32(v.to_bits()))
    }
    fn serialize_f64(self, v: f64) -> Result<(), TErr> {
        self.push(Tok::F64(v.to_bits()))
    }
    fn serialize_str(self, v: &str) -> Result<(), TErr> {
        let b = v.as_bytes();
        if self.nb + b.len() > NB {
            return Err(TErr);
        }
        let start = self.nb;
        let mut i = 0;
        while i < b.len() {
            self.bytes[start + i] = b[i];
            i += 1;
        }
        self.nb += b.len();
        self.push(Tok::Str(start, b.len()))
    }
    fn serialize_bytes(self, _v: &[u8]) -> Result<(), TErr> {
        Err(TErr)
    }
    fn serialize_none(self) -> Result<(), TErr> {
        self.push(Tok::None)
    }
    fn serialize_some<T: ?Sized + Serialize>(self, value: &T) -> Result<(), TErr> {
        self.push(Tok::Some)?;
        value.serialize(self)
    }
    fn serialize_unit(self) -> Result<(), TErr> {
        self.push(Tok::Unit)
    }
    fn serialize_unit_struct(self, _name: &'static str) -> Result<(), TErr> {
        self.push(Tok::Unit)
    }
    fn serialize_unit_variant(self, _n: &'static str, idx: u32, _v: &'static str) -> Result<(), TErr> {
        self.push(Tok::Variant(idx))
    }
    fn serialize_newtype_struct<T: ?Sized + Serialize>(self, _n: &'static str, value: &T) -> Result<(), TErr> {
        self.push(Tok::NewtypeStruct)?;
        value.serialize(self)
    }
    fn serialize_newtype_variant<T: ?Sized + Serialize>(self, _n: &'static str, idx: u32, _v: &'static str, value: &T) -> Result<(), TErr> {
        self.push(Tok::Variant(idx))?;
        value.serialize(self)
    }
    fn serialize_seq(self, len: Option<usize>) -> Result<Self, TErr> {
        match len {
            Some(l) => {
                self.push(Tok::Seq(l))?;
                Ok(self)
            }
            None => Err(TErr),
        }
    }
    fn serialize_tuple(self, len: usize) -> Result<Self, TErr> {
        self.push(Tok::Tuple(len))?;
        Ok(self)
    }
    fn serialize_tuple_struct(self, _n: &'static str, len: usize) -> Result<Self, TErr> {
        self.push(Tok::Tuple(len))?;
        Ok(self)
    }
    fn serialize_tuple_variant(self, _n: &'static str, idx: u32, _v: &'static str, len: usize) -> Result<Self, TErr> {
        self.push(Tok::Variant(idx))?;
        self.push(Tok::Tuple(len))?;
        Ok(self)
    }
    fn serialize_map(self, _len: Option<usize>) -> Result<Self::SerializeMap, TErr> {
        Err(TErr)
    }
    fn serialize_struct(self, _n: &'static str, len: usize) -> Result<Self, TErr> {
        self.push(Tok::Tuple(len))?;
        Ok(self)
    }
    fn serialize_struct_variant(self, _n: &'static str, idx: u32, _v: &'static str, len: usize) -> Result<Self, TErr> {
        self.push(Tok::Variant(idx))?;
        self.push(Tok::Tuple(len))?;
        Ok(self)
    }
    fn collect_str<T: ?Sized + core::fmt::Display>(self, value: &T) -> Result<(), TErr> {
        // stream the Display output into the tape's byte store
        struct W<'b> {
            t: &'b mut Tape,
        }
        impl<'b> core::fmt::Write for W<'b> {
            fn write_str(&mut self, s: &str) -> core::fmt::Result {
                let b = s.as_bytes();
                if self.t.nb + b.len() > NB {
                    return Err(core::fmt::Error);
                }
                let mut i = 0;
                while i < b.len() {
                    self.t.bytes[self.t.nb + i] = b[i];
                    i += 1;
                }
                self.t.nb += b.len();
                Ok(())
            }
        }
        let start = self.nb;
        {
            use core::fmt::Write;
            let mut w = W { t: &mut *self };
            if write!(w, "{}", value).is_err() {
                return Err(TErr);
            }
        }
        let len = self.nb - start;
        self.push(Tok::Str(start, len))
    }
    fn is_human_readable(&self) -> bool {
        true
    }
}
macro_rules! ser_compound {
    ($tr:ident, $m:ident) => {
        impl<'a> ser::$tr for &'a mut Tape {
            type Ok = ();
            type Error = TErr;
            fn $m<T: ?Sized + Serialize>(&mut self, value: &T) -> Result<(), TErr> {
                value.serialize(&mut **self)
            }
            fn end(self) -> Result<(), TErr> {
                Ok(())
            }
        }
    };
}
ser_compound!(SerializeSeq, serialize_element);
ser_compound!(SerializeTuple, serialize_element);
ser_compound!(SerializeTupleStruct, serialize_field);
ser_compound!(SerializeTupleVariant, serialize_field);
impl<'a> ser::SerializeStruct for &'a mut Tape {
    type Ok = ();
    type Error = TErr;
    fn serialize_field<T: ?Sized + Serialize>(&mut self, _key: &'static str, value: &T) -> Result<(), TErr> {
        value.serialize(&mut **self)
    }
    fn end(self) -> Result<(), TErr> {
        Ok(())
    }
}
impl<'a> ser::SerializeStructVariant for &'a mut Tape {
    type Ok = ();
    type Error = TErr;
    fn serialize_field<T: ?Sized + Serialize>(&mut self, _key: &'static str, value: &T) -> Result<(), TErr> {
        value.serialize(&mut **self)
    }
    fn end(self) -> Result<(), TErr> {
        Ok(())
    }
}

// ---- replay ---------------------------------------------------------------------------------------
pub struct TapeDe<'t> {
    pub tape: &'t Tape,
    pub pos: usize,
}
impl<'t> TapeDe<'t> {
    fn next(&mut self) -> Result<Tok, TErr> {
        if self.pos >= self.tape.n {
            return Err(TErr);
        }
        let t = self.tape.toks[self.pos];
        self.pos += 1;
        Ok(t)
    }
    fn peek(&self) -> Result<Tok, TErr> {
        if self.pos >= self.tape.n {
            return Err(TErr);
        }
        Ok(self.tape.toks[self.pos])
    }
}
struct Counted<'a, 't> {
    de: &'a mut TapeDe<'t>,
    left: usize,
}
impl<'de, 'a, 't> SeqAccess<'de> for Counted<'a, 't> {
    type Error = TErr;
    fn next_element_seed<S: DeserializeSeed<'de>>(&mut self, seed: S) -> Result<Option<S::Value>, TErr> {
        if self.left == 0 {
            return Ok(None);
        }
        self.left -= 1;
        seed.deserialize(&mut *self.de).map(Some)
    }
    fn size_hint(&self) -> Option<usize> {
        Some(self.left)
    }
}
struct VariantIdx(u32);
impl<'de> de::Deserializer<'de> for VariantIdx {
    type Error = TErr;
    fn deserialize_any<V: Visitor<'de>>(self, v: V) -> Result<V::Value, TErr> {
        v.visit_u32(self.0)
    }
    sd::forward_to_deserialize_any! {
        bool i8 i16 i32 i64 u8 u16 u32 u64 f32 f64 char str string bytes byte_buf option unit unit_struct
        newtype_struct seq tuple tuple_struct map struct enum identifier ignored_any
    }
}
struct EnumDe<'a, 't> {
    de: &'a mut TapeDe<'t>,
    idx: u32,
}
impl<'de, 'a, 't> EnumAccess<'de> for EnumDe<'a, 't> {
    type Error = TErr;
    type Variant = Self;
    fn variant_seed<S: DeserializeSeed<'de>>(self, seed: S) -> Result<(S::Value, Self), TErr> {
        let v = seed.deserialize(VariantIdx(self.idx))?;
        Ok((v, self))
    }
}
impl<'de, 'a, 't> VariantAccess<'de> for EnumDe<'a, 't> {
    type Error = TErr;
    fn unit_variant(self) -> Result<(), TErr> {
        Ok(())
    }
    fn newtype_variant_seed<S: DeserializeSeed<'de>>(self, seed: S) -> Result<S::Value, TErr> {
        seed.deserialize(self.de)
    }
    fn tuple_variant<V: Visitor<'de>>(self, _len: usize, v: V) -> Result<V::Value, TErr> {
        de::Deserializer::deserialize_any(self.de, v)
    }
    fn struct_variant<V: Visitor<'de>>(self, _f: &'static [&'static str], v: V) -> Result<V::Value, TErr> {
        de::Deserializer::deserialize_any(self.de, v)
    }
}

impl<'de, 'a, 't> de::Deserializer<'de> for &'a mut TapeDe<'t> {
    type Error = TErr;
    fn deserialize_any<V: Visitor<'de>>(self, v: V) -> Result<V::Value, TErr> {
        match self.next()? {
            Tok::Bool(x) => v.visit_bool(x),
            Tok::U8(x) => v.visit_u8(x),
            Tok::U16(x) => v.visit_u16(x),
            Tok::U32(x) => v.visit_u32(x),
            Tok::U64(x) => v.visit_u64(x),
            Tok::I8(x) => v.visit_i8(x),
            Tok::I16(x) => v.visit_i16(x),
            Tok::I32(x) => v.visit_i32(x),
            Tok::I64(x) => v.visit_i64(x),
            Tok::F32(x) => v.visit_f32(f32::from_bits(x)),
            Tok::F64(x) => v.visit_f64(f64::from_bits(x)),
            Tok::Char(c) => v.visit_char(c),
            Tok::Str(s, l) => match core::str::from_utf8(&self.tape.bytes[s..s + l]) {
                Ok(st) => v.visit_str(st),
                Err(_) => Err(TErr),
            },
            Tok::None => v.visit_none(),
            Tok::Some => v.visit_some(self),
            Tok::Unit => v.visit_unit(),
            Tok::Seq(n) | Tok::Tuple(n) => v.visit_seq(Counted { de: self, left: n }),
            Tok::NewtypeStruct => v.visit_newtype_struct(self),
            Tok::Variant(_) => Err(TErr),
        }
    }
    fn deserialize_option<V: Visitor<'de>>(self, v: V) -> Result<V::Value, TErr> {
        match self.peek()? {
            Tok::None => {
                self.pos += 1;
                v.visit_none()
            }
            Tok::Some => {
                self.pos += 1;
                v.visit_some(self)
            }
            _ => Err(TErr),
        }
    }
    fn deserialize_enum<V: Visitor<'de>>(self, _n: &'static str, _vs: &'static [&'static str], v: V) -> Result<V::Value, TErr> {
        match self.next()? {
            Tok::Variant(idx) => v.visit_enum(EnumDe { de: self, idx }),
            _ => Err(TErr),
        }
    }
    sd::forward_to_deserialize_any! {
        bool i8 i16 i32 i64 u8 u16 u32 u64 f32 f64 char str string bytes byte_buf unit unit_struct
        newtype_struct seq tuple tuple_struct map struct identifier ignored_any
    }
}

pub fn roundtrip<T: Serialize + for<'de> Deserialize<'de>>(x: &T) -> Option<T> {
    let mut tape = Tape::new();
    if x.serialize(&mut tape).is_err() {
        return None;
    }
    let mut de = TapeDe { tape: &tape, pos: 0 };
    match T::deserialize(&mut de) {
        Ok(y) => {
            assert!(de.pos == tape.n);
            Some(y)
        }
        Err(_) => None,
    }
}

// ---- harnesses ------------------------------------------------------------------------------------
use rtcm_rs::util::{ArrayString, DataVec, Df88591String};

fn desc<const N: usize>() {
    let bytes: [u8; N] = kani::any();
    let n: usize = kani::any();
    kani::assume(n <= N);
    let mut s = Df88591String::<N>::new();
    let mut i = 0;
    while i < N {
        if i < n {
            s.push(bytes[i]);
        }
        i += 1;
    }
    match roundtrip(&s) {
        Some(y) => {
            assert!(y.len() == s.len());
            assert!(y == s);
            kani::cover!(n == N && bytes[0] >= 0x80 && bytes[N - 1] >= 0x80);
        }
        None => assert!(false),
    }
}
#[kani::proof]
#[kani::unwind(12)]
#[kani::stub(core::str::from_utf8, crate::util::from_utf8_ref)]
pub fn desc_4() {
    desc::<4>();
}
#[kani::proof]
#[kani::unwind(18)]
#[kani::stub(core::str::from_utf8, crate::util::from_utf8_ref)]
pub fn desc_7() {
    desc::<7>();
}

#[kani::proof]
#[kani::unwind(12)]
#[kani::stub(core::str::from_utf8, crate::util::from_utf8_ref)]
pub fn utf8_5() {
    let chars: [char; 4] = kani::any();
    let n: usize = kani::any();
    kani::assume(n <= 4);
    let s: ArrayString<5> = chars[..n].iter().copied().collect();
    match roundtrip(&s) {
        Some(y) => {
            assert!(y == s);
            let a: &str = &s;
            kani::cover!(a.len() == 5);
        }
        None => assert!(false),
    }
}

/// derived impls over the same building blocks: DataVec<_, 4> at capacity, SigId (u8, char), f32
#[kani::proof]
#[kani::unwind(12)]
#[kani::stub(core::str::from_utf8, crate::util::from_utf8_ref)]
pub fn msg1230() {
    use rtcm_rs::msg::{GloSigId, Msg1230CodePhaseBias, Msg1230T};
    let n: usize = kani::any();
    kani::assume(n <= 4);
    let mut v = DataVec::<Msg1230CodePhaseBias, 4>::new();
    let mut i = 0;
    while i < 4 {
        if i < n {
            let b = f32::from_bits(kani::any());
            kani::assume(!b.is_nan());
            v.push(Msg1230CodePhaseBias { signal_id: GloSigId::new(kani::any(), kani::any()), bias_m: b });
        }
        i += 1;
    }
    let m = Msg1230T { reference_station_id: kani::any(), glo_code_phase_bias_ind: kani::any(), glo_code_phase_biases: v };
    match roundtrip(&m) {
        Some(y) => {
            assert!(y == m);
            kani::cover!(n == 4);
        }
        None => assert!(false),
    }
}

/// absent/present optionals and floats through the derived impl of a fixed-layout message
#[kani::proof]
#[kani::unwind(12)]
#[kani::stub(core::str::from_utf8, crate::util::from_utf8_ref)]
pub fn msg1006() {
    use rtcm_rs::msg::Msg1006T;
    let f = |b: u64| {
        let x = f64::from_bits(b);
        kani::assume(!x.is_nan());
        x
    };
    let m = Msg1006T {
        reference_station_id: kani::any(),
        reserved_24_6: kani::any(),
        gps_flag: kani::any(),
        glonass_flag: kani::any(),
        galileo_flag: kani::any(),
        reference_station_ind: kani::any(),
        antenna_ref_point_ecef_x_m: f(kani::any()),
        single_receiver_osc_ind: kani::any(),
        reserved_73_1: kani::any(),
        antenna_ref_point_ecef_y_m: f(kani::any()),
        quarter_cycle_ind: kani::any(),
        antenna_ref_point_ecef_z_m: f(kani::any()),
        antenna_height_m: f(kani::any()),
    };
    match roundtrip(&m) {
        Some(y) => assert!(y == m),
        None => assert!(false),
    }
}
