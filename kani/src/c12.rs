//! C12 — a builder's output depends only on the message, not on what it built before.
//! Inductive step over an over-approximated state (DESIGN.md C12):
//!  clear     L1: from ANY 1029-byte state with data[0]==0xD3 and has_run==true, a build call wipes the
//!            buffer to exactly the fresh state before anything is written (observed through calls
//!            that fail right after the wipe)
//!  fresh_eq  L2: a fresh state with has_run false/true gives the same frame and the same final state
//!  window_*  direct: dirty 96-byte window + symbolic message == fresh builder
//!  inv_*     after any build (Ok or Err part-way) data[0]==0xD3 and has_run==true => L1 applies next
use crate::util::*;
use rtcm_rs::msg::message::MsgNotSupportedT;
use rtcm_rs::{Message, MessageBuilder};

pub fn fresh_bytes() -> [u8; 1029] {
    let mut d = [0u8; 1029];
    d[0] = 0xD3;
    d
}

/// L1 for one concrete no-wire-form message (a symbolic choice between the three makes CBMC walk all
/// 108 encoder arms of build_message under infeasible guards: 10+ minutes for nothing).
pub fn clear_with(msg: Message) {
    let mut data: [u8; 1029] = kani::any();
    data[0] = 0xD3;
    let mut b = MessageBuilder::verif_from_raw(data, true);
    let r = b.build_message(&msg);
    assert!(matches!(r, Err(RtcmError::EncodingNotSupported)));
    let (d, has_run) = b.verif_raw();
    assert!(has_run);
    assert!(d[0] == 0xD3);
    let mut i = 1;
    while i < 1029 {
        assert!(d[i] == 0);
        i += 1;
    }
}
/// ... and a fresh builder is exactly that state with the flag down (separate harness: no build call,
/// so the 108-arm dispatch is not part of the program).
#[kani::proof]
#[kani::unwind(1031)]
pub fn fresh_state() {
    let f = MessageBuilder::new();
    let (fd, fr) = f.verif_raw();
    assert!(!fr && fd[0] == 0xD3);
    let mut i = 1;
    while i < 1029 {
        assert!(fd[i] == 0);
        i += 1;
    }
}
#[kani::proof]
#[kani::unwind(1031)]
pub fn clear_empty() {
    clear_with(Message::Empty);
}
#[kani::proof]
#[kani::unwind(1031)]
pub fn clear_corrupt() {
    clear_with(Message::Corrupt);
}
#[kani::proof]
#[kani::unwind(1031)]
pub fn clear_unsupported() {
    clear_with(Message::MsgNotSupported(MsgNotSupportedT { message_number: kani::any() }));
}

/// Compare a build from `state` with a build from a fresh builder, same message.
pub fn same_as_fresh(state: [u8; 1029], has_run: bool, msg: &Message) {
    let crc: u32 = kani::any();
    kani::assume(crc < (1 << 24));
    unsafe {
        CRC_VAL = crc;
    }
    let mut a = MessageBuilder::verif_from_raw(state, has_run);
    let mut b = MessageBuilder::new();
    let (la, oka) = match a.build_message(msg) {
        Ok(f) => (f.len(), true),
        Err(_) => (0, false),
    };
    let (lb, okb) = match b.build_message(msg) {
        Ok(f) => (f.len(), true),
        Err(_) => (0, false),
    };
    assert!(oka == okb && la == lb);
    let (da, ra) = a.verif_raw();
    let (db, rb) = b.verif_raw();
    assert!(ra && rb);
    // the whole buffer, hence the returned frame (a prefix of it), is identical
    let mut i = 0;
    while i < 1029 {
        assert!(da[i] == db[i]);
        i += 1;
    }
    kani::cover!(oka);
}

/// A fresh builder whose first build fails AFTER bits were already written into the buffer (a 1230
/// value with an unrecognised GLONASS signal is refused by the bias-list encoder after the message
/// number, the station id and the indicator were written): the next call must still start clean, i.e.
/// the used-flag is up (or the buffer untouched). Fully concrete message (a small type: the MSM
/// variant of this harness needed 9-13 min, over the 900 s budget of a quick check).
#[kani::proof]
#[kani::unwind(1031)]
pub fn inv_fail_after_write() {
    use rtcm_rs::msg::{GloSigId, Msg1230CodePhaseBias, Msg1230T};
    use rtcm_rs::util::DataVec;
    let mut v = DataVec::<Msg1230CodePhaseBias, 4>::new();
    v.push(Msg1230CodePhaseBias { signal_id: GloSigId::new(9, 'Z'), bias_m: 0.0 });
    let m = Msg1230T { reference_station_id: 0xABC, glo_code_phase_bias_ind: 1, glo_code_phase_biases: v };
    let msg = Message::Msg1230(m);
    let mut b = MessageBuilder::new();
    let r = b.build_message(&msg);
    assert!(r.is_err());
    let (d, has_run) = b.verif_raw();
    let mut clean = true;
    let mut i = 1;
    while i < 1029 {
        if d[i] != 0 {
            clean = false;
        }
        i += 1;
    }
    assert!(d[0] == 0xD3);
    assert!(has_run || clean);
    // the failure really happened after bits were written
    assert!(!clean);
}

/// The cheapest build that fails AFTER bits were written: a fresh builder and a Msg1020 whose second
/// field (df040, GLONASS frequency channel, bias -7) is below its bias, so the encoder returns
/// OutOfRange right after the message number and the satellite id went into the buffer. Afterwards the
/// used-flag must be up (or the buffer untouched), otherwise the next build would start from a dirty
/// buffer without wiping it (precondition of L1). Concrete message; a few field writes only, so this
/// one fits the quick tier where `inv_fail_after_write` (1230, list encoder) does not.
#[kani::proof]
#[kani::unwind(1031)]
pub fn inv_fail_early() {
    let mut m = rtcm_rs::msg::Msg1020T::default();
    m.glo_satellite_id = 5;
    m.glo_satellite_freq_chan_number = -8;
    let msg = Message::Msg1020(m);
    let mut b = MessageBuilder::new();
    let r = b.build_message(&msg);
    assert!(r.is_err());
    let (d, has_run) = b.verif_raw();
    let mut clean = true;
    let mut i = 1;
    while i < 1029 {
        if d[i] != 0 {
            clean = false;
        }
        i += 1;
    }
    assert!(d[0] == 0xD3);
    assert!(has_run || clean);
    // the failure really happened after bits were written
    assert!(!clean);
}

include!("gen/c12_list.rs");
