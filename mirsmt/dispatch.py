"""C14 (and the dispatch half of C09): the three number<->variant<->codec tables of message.rs,
read from the MIR of the CURRENT tree and decided for all 4096 message numbers by SMT.

  Message::from_message_frame : n -> (decoder module, variant built on Ok, outcome on Err) | otherwise
  Message::number             : discriminant -> Some(const) | None
  MessageBuilder::build_message: discriminant -> encoder module; number written = message.number()
"""
import re

from engine import Unsupported, parse_mir, solve


def _fn(funcs, suffix):
    hits = [f for n, f in funcs.items() if n.endswith(suffix)]
    if len(hits) != 1:
        raise Unsupported("expected exactly one function %s, found %d" % (suffix, len(hits)))
    return hits[0]


def _switch(stmt):
    m = re.fullmatch(r"switchInt\((?:copy|move) (_\d+)\) -> \[(.+)\];?", stmt.strip())
    if not m:
        return None
    table, other = {}, None
    for t in m.group(2).split(","):
        k, b = [x.strip() for x in t.split(":")]
        if k == "otherwise":
            other = b
        else:
            table[int(k)] = b
    return m.group(1), table, other


def _follow_goto(f, bb):
    """skip blocks that only `goto`"""
    seen = 0
    while seen < 10:
        st = f.blocks[bb]
        if len(st) == 1 and st[0].startswith("goto -> "):
            bb = st[0].rstrip(";").split("-> ")[1]
            seen += 1
        else:
            return bb
    return bb


def read_from_message_frame(f):
    """returns dict with 'empty_on_none', 'arms' {n: (decoder, ok_variant, err_outcome)}, 'otherwise' description"""
    out = {"arms": {}}
    b0 = f.blocks["bb0"]
    if not re.search(r"MessageFrame::<'_>::message_number\(copy _1\)", b0[-1]):
        raise Unsupported("from_message_frame does not start with message_number(): %s" % b0[-1])
    numvar = re.match(r"(_\d+) = ", b0[-1]).group(1)
    b1 = f.blocks[re.search(r"return: (bb\d+)", b0[-1]).group(1)]
    sw = _switch(b1[-1])
    if not (b1[0].replace(" ", "") == ("%s=discriminant(%s);" % (re.match(r"(_\d+)", b1[0]).group(1), numvar)).replace(" ", "") or "discriminant(%s)" % numvar in b1[0]) or sw is None:
        raise Unsupported("unexpected block after message_number")
    none_bb, some_bb = sw[1].get(0), sw[1].get(1)
    out["none_outcome"] = " ".join(f.blocks[none_bb])
    some = f.blocks[some_bb]
    mm = re.match(r"(_\d+) = copy \(\(%s as Some\)\.0: u16\);" % numvar, some[0])
    if not mm:
        raise Unsupported("message number not bound from Some")
    nvar = mm.group(1)
    if not re.search(r"MessageFrame::<'_>::data\(copy _1\)", some[-1]):
        raise Unsupported("payload not taken from MessageFrame::data")
    datavar = re.match(r"(_\d+) = ", some[-1]).group(1)
    nb = f.blocks[re.search(r"return: (bb\d+)", some[-1]).group(1)]
    pm = re.match(r"(_\d+) = Parser::<'_>::new\(copy %s, const (\d+)_usize\)" % datavar, nb[-1])
    if not pm:
        raise Unsupported("Parser::new(data, 12) not found")
    out["parser_offset"] = int(pm.group(2))
    parser = pm.group(1)
    swb = f.blocks[re.search(r"return: (bb\d+)", nb[-1]).group(1)]
    sw = _switch(swb[-1])
    if sw is None or sw[0] != nvar:
        raise Unsupported("dispatch switch is not on the message number")
    for n, bb in sw[1].items():
        blk = f.blocks[bb]
        call = blk[-1]
        cm = re.match(r"(_\d+) = msg::(\w+)::(\w+)::decode\(copy (_\d+)\) -> \[return: (bb\d+)", call)
        if not cm or cm.group(2) != cm.group(3):
            raise Unsupported("arm %d is not a single msgN::decode call: %s" % (n, call))
        # the argument must be a &mut to the parser over data()
        ref = [s for s in blk[:-1] if s.startswith(cm.group(4) + " = &mut " + parser)]
        if not ref:
            raise Unsupported("arm %d decodes from something else than the frame parser" % n)
        res = cm.group(1)
        nxt = f.blocks[cm.group(5)]
        s2 = _switch(nxt[-1])
        if s2 is None or "discriminant(%s)" % res not in nxt[0]:
            raise Unsupported("arm %d: result not matched" % n)
        okb = " ".join(f.blocks[s2[1][0]])
        erb = " ".join(f.blocks[s2[1][1]])
        vm = re.search(r"_0 = Message::(\w+)\((?:copy|move) (_\d+)\)", okb)
        src = re.search(r"(_\d+) = move \(\(%s as Ok\)\.0" % res, okb)
        if not vm or not src or src.group(1) != vm.group(2):
            raise Unsupported("arm %d: Ok value is not wrapped unchanged: %s" % (n, okb))
        em = re.search(r"_0 = Message::(\w+);", erb)
        out["arms"][n] = (cm.group(2), vm.group(1), em.group(1) if em else "?")
    ob = " ".join(f.blocks[sw[2]])
    om = re.search(r"MsgNotSupportedT \{ message_number: copy (_\d+) \}", ob)
    out["otherwise_ok"] = bool(om and om.group(1) == nvar and "Message::MsgNotSupported(" in ob)
    return out


def read_number(f):
    """discriminant -> constant returned (None for the default arm)"""
    table = {}
    default_none = False
    for bb, st in f.blocks.items():
        sw = _switch(st[-1]) if st else None
        if sw and len(sw[1]) > 50:
            for d, tb in sw[1].items():
                body = " ".join(f.blocks[_follow_goto(f, tb)])
                m = re.search(r"Option::<u16>::Some\(const (\d+)_u16\)", body)
                table[d] = int(m.group(1)) if m else None
            ob = " ".join(f.blocks[_follow_goto(f, sw[2])])
            default_none = "Option::<u16>::None" in ob
    return table, default_none


def read_build_message(f):
    """discriminant -> encoder module"""
    table = {}
    for bb, st in f.blocks.items():
        sw = _switch(st[-1]) if st else None
        if sw and len(sw[1]) > 50:
            for d, tb in sw[1].items():
                blk = f.blocks[tb]
                calls = [s for s in blk if "::encode(" in s]
                # the call may sit in the next block after binding the payload reference
                hops = 0
                cur = tb
                while not calls and hops < 3:
                    last = f.blocks[cur][-1]
                    nx = re.search(r"(?:return: |goto -> )(bb\d+)", last)
                    if not nx:
                        break
                    cur = nx.group(1)
                    calls = [s for s in f.blocks[cur] if "::encode(" in s]
                    hops += 1
                m = re.search(r"msg::(\w+)::(\w+)::encode\(", calls[0]) if calls else None
                table[d] = m.group(2) if m and m.group(1) == m.group(2) else None
    uses_number = any(re.search(r"::number\(copy _2\)", s) for st in f.blocks.values() for s in st)
    return table, uses_number


def ite_chain(table, default, conv):
    s = conv(default)
    for k in sorted(table):
        s = "(ite (= n %d) %s %s)" % (k, conv(table[k]), s)
    return s


def queries(mir_text, supported, variant_of_number):
    """supported: set of numbers from Cargo.toml features; variant_of_number: {n: 'Msg1005'} from the enum declaration"""
    funcs = parse_mir(mir_text, lambda n: n.endswith("::from_message_frame") or (n.startswith("message::") and (n.endswith("::number") or n.endswith("::build_message"))))
    fmf = read_from_message_frame(_fn(funcs, "::from_message_frame"))
    num, num_default_none = read_number(_fn(funcs, "::number"))
    bm, bm_uses_number = read_build_message(_fn(funcs, "::build_message"))

    def modnum(m):
        mm = re.fullmatch(r"msg(\d+)", m or "")
        return int(mm.group(1)) if mm else -1

    def varnum(v):
        mm = re.fullmatch(r"Msg(\d+)", v or "")
        return int(mm.group(1)) if mm else -1

    dec_tab = {n: modnum(a[0]) for n, a in fmf["arms"].items()}
    var_tab = {n: varnum(a[1]) for n, a in fmf["arms"].items()}
    err_tab = {n: 1 if a[2] == "Corrupt" else 0 for n, a in fmf["arms"].items()}
    q = lambda v: str(v) if v >= 0 else "(- %d)" % (-v)
    sup = "(or %s)" % " ".join("(= n %d)" % s for s in sorted(supported))
    head = "(set-logic ALL)\n(declare-const n Int)\n(assert (and (>= n 0) (<= n 4095)))\n"
    qs = []
    # 1. dispatch of decode
    body = head + "(define-fun dec () Int %s)\n(define-fun var () Int %s)\n(define-fun err () Int %s)\n" % (
        ite_chain(dec_tab, -1, q), ite_chain(var_tab, -1, q), ite_chain(err_tab, -1, q))
    body += "(assert (or (and %s (or (distinct dec n) (distinct var n) (distinct err 1))) (and (not %s) (or (distinct dec (- 1)) (distinct var (- 1))))))\n(check-sat)\n(get-model)\n" % (sup, sup)
    qs.append(("from_message_frame_table", body, "for all n in 0..4095: supported => arm decodes with msg<n>::decode, wraps Ok in variant Msg<n>, maps Err to Corrupt; unsupported => otherwise arm"))
    # 2. number()
    num_tab = {d: (v if v is not None else -1) for d, v in num.items()}
    body = head.replace("4095", "65535") + "(define-fun num () Int %s)\n" % ite_chain(num_tab, -1, q)
    body += "(assert (or (and %s (distinct num n)) (and (not %s) (distinct num (- 1)))))\n(check-sat)\n(get-model)\n" % (sup, sup)
    qs.append(("number_table", body, "for every discriminant d (= variant number): number() == Some(d) iff d is a supported message, None for Empty/Corrupt/MsgNotSupported (5000/6000/7000) and anything else"))
    # 3. build_message dispatch
    bm_tab = {d: modnum(v) for d, v in bm.items()}
    body = head.replace("4095", "65535") + "(define-fun enc () Int %s)\n" % ite_chain(bm_tab, -1, q)
    body += "(assert (and %s (distinct enc n)))\n(check-sat)\n(get-model)\n" % sup
    qs.append(("build_message_table", body, "for every supported variant d: build_message encodes with msg<d>::encode"))
    facts = {
        "empty_when_number_absent": "Message::Empty" in fmf["none_outcome"],
        "parser_starts_after_12_bits": fmf["parser_offset"] == 12,
        "otherwise_arm_builds_MsgNotSupported_with_n": fmf["otherwise_ok"],
        "number_default_none": num_default_none,
        "build_message_writes_message_number": bm_uses_number,
        "variant_names_match_enum_declaration": all(variant_of_number.get(n) == a[1] for n, a in fmf["arms"].items()),
        "arms": len(fmf["arms"]),
        "features": len(supported),
    }
    return qs, facts
