"""Queries over the MIR of dfs::<id>::{encode,decode} (engine M).

  roundtrip(field)   C08: for every len-bit pattern p, encode(decode(p)) writes p back (negative zero of
                     sign-magnitude fields normalises to 0); 'absent' <-> exactly the inv pattern
  quantise(field)    C11: for every real x between two adjacent representable values D(k) <= x <= D(k+1)
                     the written integer is k or k+1, |D(n) - x| <= res/2 + slack, monotone
Every query is a satisfiability check of the NEGATED claim: unsat = holds for all values.
"""
import os
import re
from fractions import Fraction

from engine import (CARRIER_VT, FLOAT, INT_TYPES, ConcreteDomain, Exec, SmtDomain, Unsupported, V, _q,
                    channel_pattern, channel_value, int_range)


def carrier_kind(it):
    return "u" if it.startswith("U") else ("s" if it.startswith("I") else "sm")


def value_range(it, ln):
    """representable values of (kind, len)"""
    k = carrier_kind(it)
    if k == "u":
        return 0, (1 << ln) - 1
    if k == "s":
        return -(1 << (ln - 1)), (1 << (ln - 1)) - 1
    return -((1 << (ln - 1)) - 1), (1 << (ln - 1)) - 1


def dt_of(func_dec):
    m = re.search(r"Result<(?:Option<)?(\w+)>?", func_dec.ret)
    return m.group(1)


def mk_arg(field, dom, x_term, is_some=True):
    """argument value for encode(asm, &value)"""
    dt = field["dt"]
    if dt in ("f32", "f64"):
        inner = V("float", dt, x_term)
    else:
        inner = V("int", dt, x_term)
    if field["optional"]:
        return V("opt", None, None, [is_some, inner])
    return inner


def run_decode(fdec, dom, field, value_term):
    vt = CARRIER_VT[field["it"]]
    pv = V("int", vt, value_term)
    ex = Exec(fdec, dom, {"_1": V("unit")}, [pv])
    return ex.paths


def run_encode(fenc, dom, field, arg):
    ex = Exec(fenc, dom, {"_1": V("unit"), "_2": arg})
    return ex.paths


def _script(dom, extra):
    return "(set-logic ALL)\n(set-option :produce-models true)\n" + "\n".join(dom.decls) + "\n" + \
        "\n".join("(assert %s)" % a for a in dom.asserts) + "\n" + "\n".join("(assert %s)" % a for a in extra) + "\n(check-sat)\n(get-model)\n"


def _and(xs):
    xs = [x for x in xs if x is not True]
    if any(x is False for x in xs):
        return "false"
    if not xs:
        return "true"
    return "(and %s)" % " ".join(xs) if len(xs) > 1 else xs[0]


def _or(xs):
    xs = [x for x in xs if x is not False]
    if any(x is True for x in xs):
        return "true"
    if not xs:
        return "false"
    return "(or %s)" % " ".join(xs) if len(xs) > 1 else xs[0]


def ret_value(path):
    """(kind, is_some, V) of a decode path's return value"""
    kind, v = path.outcome
    if kind != "return":
        return kind, None, None
    if v.kind == "err":
        return "err", None, None
    inner = v.parts[0]
    if inner.kind == "opt":
        return "ok", inner.parts[0], inner.parts[1]
    return "ok", True, inner


# ------------------------------------------------------------------------------------------------
# C08: pattern round trip
# ------------------------------------------------------------------------------------------------

def roundtrip_queries(field, fenc, fdec):
    """list of (name, smt_script, meaning). All must be unsat."""
    qs = []
    ln, it = field["len"], field["it"]
    half = 1 << (ln - 1)
    lo, hi = value_range(it, ln)
    inv_pat = None if field["inv"] is None else field["inv"] & ((1 << ln) - 1)
    # decode paths are enumerated once per query (fresh domain each time)
    n_dec = len(run_decode(fdec, SmtDomain(), field, "p0"))
    for di in range(n_dec):
        dom = SmtDomain()
        dom.decls.append("(declare-const p Int)")
        base = ["(>= p 0)", "(<= p %d)" % ((1 << ln) - 1)]
        val = channel_value(dom, it, "p", ln)
        dpaths = run_decode(fdec, dom, field, val)
        dp = dpaths[di]
        kind, is_some, x = ret_value(dp)
        dcond = [dom.lit(c) for c in dp.cond]
        if kind != "ok":
            qs.append(("dec%d_reach_%s" % (di, kind), _script(dom, base + dcond), "decode path ending in %s must be unreachable" % kind))
            continue
        if field["optional"]:
            if is_some is False:
                qs.append(("dec%d_none_only_inv" % di, _script(dom, base + dcond + ["(distinct p %d)" % inv_pat]), "decode returns None only for the inv pattern"))
                continue
            else:
                qs.append(("dec%d_some_not_inv" % di, _script(dom, base + dcond + ["(= p %d)" % inv_pat]), "the inv pattern never decodes to Some"))
        # encode the decoded value
        arg = mk_arg(field, dom, x.t, True)
        epaths = run_encode(fenc, dom, field, arg)
        expected = "p"
        if carrier_kind(it) == "sm":
            expected = "(ite (= p %d) 0 p)" % half
        for ei, ep in enumerate(epaths):
            econd = [dom.lit(c) for c in ep.cond]
            ekind, ev = ep.outcome
            if ekind == "panic":
                qs.append(("dec%d_enc%d_panic" % (di, ei), _script(dom, base + dcond + econd), "encode(decode(p)) must not panic: %s" % ev))
                continue
            if ekind == "return" and ev.kind == "err":
                qs.append(("dec%d_enc%d_err" % (di, ei), _script(dom, base + dcond + econd), "encode(decode(p)) must not be an error"))
                continue
            puts = [e for e in ep.events if e[0] == "put"]
            if len(puts) != 1:
                raise Unsupported("%s: %d puts on an encode path" % (field["id"], len(puts)))
            _, pit, pv, pln = puts[0]
            if pit != it or pln != ln:
                raise Unsupported("%s: encode writes %s/%s, decode reads %s/%s" % (field["id"], pit, pln, it, ln))
            v = dom.lit(pv.t)
            pat = channel_pattern(dom, it, v, ln)
            bad = _or(["(distinct %s %s)" % (dom.lit(pat), expected), "(< %s %s)" % (v, _q(lo)), "(> %s %s)" % (v, _q(hi))] + dom.overflow_terms)
            qs.append(("dec%d_enc%d_roundtrip" % (di, ei), _script(dom, base + dcond + econd + [bad]), "written pattern == p and value representable and no float overflow"))
    # encode(None) writes inv
    if field["optional"]:
        dom = ConcreteDomain()
        arg = V("opt", None, None, [False, None])
        eps = run_encode(fenc, dom, field, arg)
        ok = len(eps) == 1 and eps[0].outcome[0] == "return" and len(eps[0].events) == 1 and \
            channel_pattern(dom, it, eps[0].events[0][2].t, ln) == inv_pat
        qs.append(("enc_none_writes_inv", None if ok else "FAIL", "encode(None) writes the inv pattern %s" % inv_pat))
    return qs


# ------------------------------------------------------------------------------------------------
# C11: quantisation
# ------------------------------------------------------------------------------------------------

def rep_range(field):
    """contiguous range [klo, khi] of representable integers (inv removed if it sits at an end)"""
    lo, hi = value_range(field["it"], field["len"])
    inv = field["inv"]
    holes = []
    if inv is not None:
        # inv literal as the carrier's value
        iv = inv
        if iv == lo:
            lo += 1
        elif iv == hi:
            hi -= 1
        elif lo < iv < hi:
            holes.append(iv)
    return lo, hi, holes


def decode_value(fdec, dom, field, kterm):
    """Real term of decode for carrier value k (the Some/plain path), plus path conditions."""
    dpaths = run_decode(fdec, dom, field, kterm)
    outs = []
    for dp in dpaths:
        kind, is_some, x = ret_value(dp)
        if kind == "ok" and is_some is not False:
            outs.append((dp, x))
    if len(outs) != 1:
        raise Unsupported("%s: %d value-returning decode paths" % (field["id"], len(outs)))
    dp, x = outs[0]
    return x.t, [dom.lit(c) for c in dp.cond]


def quantise_queries(field, fenc, fdec):
    qs = []
    ln, it, dt = field["len"], field["it"], field["dt"]
    klo, khi, holes = rep_range(field)
    p, u, eta, fmax = FLOAT[dt]
    res = abs(Fraction(field["res"])) if field["res"] is not None else Fraction(1)
    bias = Fraction(0)
    if field["bias_src"]:
        bias = Fraction(field["bias_src"].replace("_", ""))

    def setup(tag=""):
        dom = SmtDomain(tag)
        k, x = "k" + tag, "x" + tag
        dom.decls += ["(declare-const %s Int)" % k, "(declare-const %s Real)" % x]
        base = ["(>= %s %s)" % (k, _q(klo)), "(<= %s %s)" % (k, _q(khi - 1))]
        for h in holes:
            base += ["(distinct %s %s)" % (k, _q(h)), "(distinct (+ %s 1) %s)" % (k, _q(h))]
        d0, c0 = decode_value(fdec, dom, field, k)
        d1, c1 = decode_value(fdec, dom, field, "(+ %s 1)" % k)
        base += c0 + c1 + ["(<= %s %s)" % (d0, x), "(<= %s %s)" % (x, d1)]
        arg = mk_arg(field, dom, x, True)
        epaths = run_encode(fenc, dom, field, arg)
        return dom, base, epaths, (k, x, d0, d1)

    dom, base, epaths, _ = setup()
    n_enc = len(epaths)
    for ei in range(n_enc):
        dom, base, epaths, (k, x, d0, d1) = setup()
        ep = epaths[ei]
        econd = [dom.lit(c) for c in ep.cond]
        ekind, ev = ep.outcome
        if ekind == "panic":
            qs.append(("enc%d_panic" % ei, _script(dom, base + econd), "no panic for in-range input: %s" % ev))
            continue
        if ekind == "return" and ev.kind == "err":
            qs.append(("enc%d_err" % ei, _script(dom, base + econd), "in-range input is not rejected"))
            continue
        puts = [e for e in ep.events if e[0] == "put"]
        if len(puts) != 1:
            raise Unsupported("%s: %d puts" % (field["id"], len(puts)))
        n = dom.lit(puts[0][2].t)
        # (i) neighbour: n in {k, k+1}   (also: no wrap, value representable)
        bad = _or(["(and (distinct %s %s) (distinct %s (+ %s 1)))" % (n, k, n, k)] + dom.overflow_terms)
        qs.append(("enc%d_neighbour" % ei, _script(dom, base + econd + [bad]), "written integer is one of the two neighbours k, k+1 of x"))
        # (ii) error bound |D(n) - x| <= res/2 + slack
        dn, cn = decode_value(fdec, dom, field, n)
        slack = "(* %s (+ (ite (>= %s 0.0) %s (- %s)) %s))" % (_q(8 * u), x, x, x, _q(abs(bias) + res))
        bound = "(+ %s %s)" % (_q(res / 2), slack)
        err = "(ite (>= (- %s %s) 0.0) (- %s %s) (- %s %s))" % (dn, x, dn, x, x, dn)
        qs.append(("enc%d_halfstep" % ei, _script(dom, base + econd + cn + ["(> %s %s)" % (err, bound)]), "|decode(n) - x| <= res/2 + 8u(|x|+|bias|+res)"))
    # (iv) monotone: two copies, x1 <= x2, n1 > n2, with monotone-rounding side constraints
    dom = SmtDomain("a")
    doms = []
    for tag in ("a", "b"):
        pass
    d1 = SmtDomain("a")
    d2 = SmtDomain("b")
    for dmn, tag in ((d1, "a"), (d2, "b")):
        dmn.decls += ["(declare-const x%s Real)" % tag]
    lo_v = None
    # range of x: between D(klo) and D(khi)
    d0 = SmtDomain("r")
    dlo1, cl1 = decode_value(fdec, d0, field, klo)
    dhi1, ch1 = decode_value(fdec, d0, field, khi)
    e1 = run_encode(fenc, d1, field, mk_arg(field, d1, "xa", True))
    e2 = run_encode(fenc, d2, field, mk_arg(field, d2, "xb", True))
    rng = ["(<= %s xa)" % d1.lit(dlo1, True), "(<= xa xb)", "(<= xb %s)" % d1.lit(dhi1, True)]
    for i, pa in enumerate(e1):
        for j, pb in enumerate(e2):
            if pa.outcome[0] != "return" or pb.outcome[0] != "return" or pa.outcome[1].kind == "err" or pb.outcome[1].kind == "err":
                continue
            pa_puts = [e for e in pa.events if e[0] == "put"]
            pb_puts = [e for e in pb.events if e[0] == "put"]
            na, nb = d1.lit(pa_puts[0][2].t), d2.lit(pb_puts[0][2].t)
            mono = []
            # pair corresponding float operations (same program point order on both sides)
            if len(d1.float_ops) == len(d2.float_ops):
                for (ta, ea, ra), (tb, eb, rb) in zip(d1.float_ops, d2.float_ops):
                    mono.append("(=> (<= %s %s) (<= %s %s))" % (ea, eb, ra, rb))
            script = "(set-logic ALL)\n(set-option :produce-models true)\n" + "\n".join(d1.decls + d2.decls) + "\n" + \
                "\n".join("(assert %s)" % a for a in d1.asserts + d2.asserts + rng + mono + [d1.lit(c) for c in pa.cond] + [d2.lit(c) for c in pb.cond] + ["(> %s %s)" % (na, nb)]) + \
                "\n(check-sat)\n(get-model)\n"
            qs.append(("mono_%d_%d" % (i, j), script, "x1 <= x2 implies n1 <= n2"))
    return qs
