"""MIR -> symbolic paths for the small straight-line kernels of rtcm-rs (df!-generated encode/decode,
the dispatch functions).  The MIR text comes from `rustc -Zunpretty=mir` on /repo's CURRENT tree.

The executor is generic over a *domain*:
  SmtDomain      ints = SMT Int (explicit wrap / overflow conditions), floats = SMT Real with the
                 standard model of IEEE arithmetic  fl(a op b) in [(a op b)(1-u) - eta, (a op b)(1+u) + eta]
                 (u = 2^-24 / 2^-53, eta = smallest subnormal; round-to-nearest), bools = SMT Bool
  ConcreteDomain ints = Python ints, floats = IEEE doubles / correctly rounded singles; used to
                 validate the translator against the real functions run natively.

Anything outside the supported MIR subset raises Unsupported (the runner reports exit 2).
"""
import math
import re
import struct
from fractions import Fraction


class Unsupported(Exception):
    pass


INT_TYPES = {
    "u8": (0, 8), "u16": (0, 16), "u32": (0, 32), "u64": (0, 64), "usize": (0, 64),
    "i8": (1, 8), "i16": (1, 16), "i32": (1, 32), "i64": (1, 64), "isize": (1, 64),
}
FLOAT = {"f32": (24, Fraction(1, 2 ** 24), Fraction(1, 2 ** 150), (2 - Fraction(1, 2 ** 23)) * 2 ** 127),
         "f64": (53, Fraction(1, 2 ** 53), Fraction(1, 2 ** 1075), (2 - Fraction(1, 2 ** 52)) * 2 ** 1023)}


def int_range(ty):
    s, b = INT_TYPES[ty]
    return (-(1 << (b - 1)), (1 << (b - 1)) - 1) if s else (0, (1 << b) - 1)


def f32_round(x):
    return struct.unpack("f", struct.pack("f", x))[0]


# ------------------------------------------------------------------------------------------------
# MIR parsing
# ------------------------------------------------------------------------------------------------

class Func:
    def __init__(self, name, args, ret):
        self.name, self.args, self.ret = name, args, ret
        self.locals = {}
        self.blocks = {}


def parse_mir(text, want=None):
    """Return {name: Func}. `want` is an optional predicate on the function name."""
    funcs = {}
    lines = text.split("\n")
    i = 0
    n = len(lines)
    hdr = re.compile(r"^fn (.+?)\((.*)\) -> (.+) \{$")
    while i < n:
        m = hdr.match(lines[i])
        if not m or (want and not want(m.group(1))):
            i += 1
            continue
        name = m.group(1)
        args = []
        for a in _split_top(m.group(2)):
            am = re.match(r"\s*(_\d+): (.+)$", a)
            if am:
                args.append((am.group(1), am.group(2).strip()))
        f = Func(name, args, m.group(3))
        for a, t in args:
            f.locals[a] = t
        i += 1
        cur = None
        while i < n and lines[i] != "}":
            ln = lines[i].strip()
            lm = re.match(r"let (?:mut )?(_\d+): (.+);$", ln)
            if lm:
                f.locals[lm.group(1)] = lm.group(2)
            bm = re.match(r"(bb\d+)(?: \(cleanup\))?: \{$", ln)
            if bm:
                cur = bm.group(1)
                f.blocks[cur] = []
            elif cur is not None and ln and ln != "}" and not ln.startswith("scope") and not ln.startswith("debug") and not ln.startswith("let "):
                # statements may span lines only for long switchInt; join until ';' or terminator end
                stmt = ln
                while not _complete(stmt) and i + 1 < n:
                    i += 1
                    stmt += " " + lines[i].strip()
                f.blocks[cur].append(stmt)
            elif ln == "}":
                cur = None
            i += 1
        funcs[name] = f
        i += 1
    return funcs


def _complete(stmt):
    return stmt.endswith(";") or stmt.endswith("];") or stmt == "return;" or stmt == "unreachable;"


def _split_top(s):
    out, depth, cur = [], 0, ""
    for c in s:
        if c in "(<[":
            depth += 1
        elif c in ")>]":
            depth -= 1
        if c == "," and depth == 0:
            out.append(cur)
            cur = ""
        else:
            cur += c
    if cur.strip():
        out.append(cur)
    return out


# ------------------------------------------------------------------------------------------------
# values
# ------------------------------------------------------------------------------------------------

class V:
    """kind: int(ty), float(ty), bool, opt(inner...), ok, err, cont, brk, tuple, ref, unit, enum"""

    def __init__(self, kind, ty=None, t=None, parts=None):
        self.kind, self.ty, self.t, self.parts = kind, ty, t, parts

    def __repr__(self):
        return "V(%s,%s,%s,%s)" % (self.kind, self.ty, self.t, self.parts)


class Path:
    def __init__(self):
        self.env = {}
        self.cond = []
        self.events = []     # ("put", IT, V, len) in order
        self.side = []       # side conditions (domain terms) that must hold for the model to be exact
        self.outcome = None  # ("return", V) | ("panic", msg)

    def clone(self):
        p = Path()
        p.env = dict(self.env)
        p.cond = list(self.cond)
        p.events = list(self.events)
        p.side = list(self.side)
        return p


# ------------------------------------------------------------------------------------------------
# domains
# ------------------------------------------------------------------------------------------------

def _q(fr):
    """SMT-LIB literal of a rational / int."""
    if isinstance(fr, bool):
        return "true" if fr else "false"
    if isinstance(fr, int):
        return str(fr) if fr >= 0 else "(- %d)" % (-fr)
    fr = Fraction(fr)
    if fr.denominator == 1:
        return ("%d.0" % fr.numerator) if fr >= 0 else "(- %d.0)" % (-fr.numerator)
    s = "(/ %d.0 %d.0)" % (abs(fr.numerator), fr.denominator)
    return s if fr >= 0 else "(- %s)" % s


class SmtDomain:
    """Builds SMT-LIB terms; declarations and constraints accumulate in self.decls / self.asserts."""

    def __init__(self, tag=""):
        self.decls = []
        self.asserts = []
        self.n = 0
        self.tag = tag
        self.float_ops = []     # (ty, exact_term, result_term) for monotonicity pairing
        self.overflow_terms = []  # bool terms: |result| exceeds the finite range

    # -- helpers
    def fresh(self, sort, hint="t"):
        self.n += 1
        name = "%s_%s%d" % (hint, self.tag, self.n)
        self.decls.append("(declare-const %s %s)" % (name, sort))
        return name

    def is_conc(self, t):
        return isinstance(t, (int, Fraction, bool))

    def lit(self, t, real=False):
        if self.is_conc(t):
            if real and isinstance(t, int) and not isinstance(t, bool):
                return _q(Fraction(t))
            return _q(t)
        return t

    # -- ints
    def int_const(self, v):
        return int(v)

    def int_bin(self, op, a, b, ty):
        """returns (exact_result, overflow_flag_term) without wrapping"""
        if self.is_conc(a) and self.is_conc(b):
            r = {"Add": a + b, "Sub": a - b, "Mul": a * b}[op]
            lo, hi = int_range(ty)
            return r, not (lo <= r <= hi)
        sym = {"Add": "+", "Sub": "-", "Mul": "*"}[op]
        r = "(%s %s %s)" % (sym, self.lit(a), self.lit(b))
        lo, hi = int_range(ty)
        return r, "(or (< %s %s) (> %s %s))" % (r, _q(lo), r, _q(hi))

    def int_div(self, a, b, ty):
        if not self.is_conc(b) or b == 0:
            raise Unsupported("integer division by non-constant")
        if self.is_conc(a):
            q = abs(a) // abs(b)
            return q if (a >= 0) == (b >= 0) else -q
        if INT_TYPES[ty][0] == 0:
            return "(div %s %s)" % (a, _q(b))
        # truncation toward zero
        return "(ite (>= %s 0) (div %s %s) (- (div (- %s) %s)))" % (a, a, _q(b), a, _q(b))

    def wrap(self, a, ty):
        lo, hi = int_range(ty)
        mod = hi - lo + 1
        if self.is_conc(a):
            return (a - lo) % mod + lo
        if lo == 0:
            return "(mod %s %s)" % (a, _q(mod))
        return "(+ (mod (- %s %s) %s) %s)" % (a, _q(lo), _q(mod), _q(lo))

    def cmp(self, op, a, b, real=False):
        if self.is_conc(a) and self.is_conc(b):
            return {"Ge": a >= b, "Gt": a > b, "Le": a <= b, "Lt": a < b, "Eq": a == b, "Ne": a != b}[op]
        sym = {"Ge": ">=", "Gt": ">", "Le": "<=", "Lt": "<", "Eq": "=", "Ne": "distinct"}[op]
        return "(%s %s %s)" % (sym, self.lit(a, real), self.lit(b, real))

    def not_(self, a):
        if self.is_conc(a):
            return not a
        return "(not %s)" % a

    # -- floats (reals + standard model)
    def float_const(self, text, ty):
        return parse_float_literal(text, ty)

    def _round(self, exact, ty, anchors=None):
        """fresh real r with |r - exact| <= u*|exact| + eta  (round to nearest)"""
        p, u, eta, fmax = FLOAT[ty]
        r = self.fresh("Real", "fl")
        e = exact
        lo1 = "(- (* %s %s) %s)" % (_q(1 - u), e, _q(eta))
        hi1 = "(+ (* %s %s) %s)" % (_q(1 + u), e, _q(eta))
        lo2 = "(- (* %s %s) %s)" % (_q(1 + u), e, _q(eta))
        hi2 = "(+ (* %s %s) %s)" % (_q(1 - u), e, _q(eta))
        self.asserts.append("(ite (>= %s 0.0) (and (<= %s %s) (<= %s %s)) (and (<= %s %s) (<= %s %s)))" % (e, lo1, r, r, hi1, lo2, r, r, hi2))
        # rounding to nearest is monotone and leaves representable numbers fixed, so it never moves a
        # result across a representable anchor (0 and the op's own float constants)
        for c in [Fraction(0)] + list(anchors or []):
            self.asserts.append("(=> (>= %s %s) (>= %s %s))" % (e, _q(Fraction(c)), r, _q(Fraction(c))))
            self.asserts.append("(=> (<= %s %s) (<= %s %s))" % (e, _q(Fraction(c)), r, _q(Fraction(c))))
        self.overflow_terms.append("(or (> %s %s) (< %s %s))" % (e, _q(fmax), e, _q(-fmax)))
        self.float_ops.append((ty, e, r))
        return r

    def float_bin(self, op, a, b, ty):
        ca, cb = self.is_conc(a), self.is_conc(b)
        if ca and cb:
            return conc_float_bin(op, a, b, ty)
        if op in ("Mul", "Div") and not (ca or cb):
            raise Unsupported("float %s of two symbolic operands" % op)
        if op == "Div" and ca:
            raise Unsupported("constant / symbolic")
        if op == "Mul":
            c, x = (a, b) if ca else (b, a)
            exact = "(* %s %s)" % (_q(Fraction(c)), x)
        elif op == "Div":
            if b == 0:
                raise Unsupported("division by zero constant")
            exact = "(* %s %s)" % (_q(1 / Fraction(b)), a)
        elif op == "Add":
            exact = "(+ %s %s)" % (self.lit(a, True), self.lit(b, True))
        elif op == "Sub":
            exact = "(- %s %s)" % (self.lit(a, True), self.lit(b, True))
        else:
            raise Unsupported("float op " + op)
        anchors = []
        if op in ("Add", "Sub"):
            # x + c >= c  <=>  x >= 0 etc.: anchors are the float constants themselves (representable)
            if cb:
                anchors.append(Fraction(b) if op == "Add" else -Fraction(b))
            if ca:
                anchors.append(Fraction(a))
        return self._round(exact, ty, anchors)

    def int_to_float(self, a, ity, fty):
        p = FLOAT[fty][0]
        bits = INT_TYPES[ity][1] - (1 if INT_TYPES[ity][0] else 0)
        if self.is_conc(a):
            return Fraction(float(a)) if fty == "f64" else Fraction(f32_round(float(a)))
        real = "(to_real %s)" % a
        if bits <= p:
            return real
        r = self._round(real, fty)
        lim = _q(Fraction(2 ** p))
        # exact whenever the integer fits the significand
        out = self.fresh("Real", "i2f")
        self.asserts.append("(= %s (ite (and (<= %s %s) (>= %s (- %s))) %s %s))" % (out, real, lim, real, lim, real, r))
        return out

    def float_to_int(self, a, fty, ity):
        lo, hi = int_range(ity)
        if self.is_conc(a):
            t = math.trunc(Fraction(a))
            return max(lo, min(hi, t))
        tr = "(ite (>= %s 0.0) (to_int %s) (- (to_int (- %s))))" % (a, a, a)
        return "(ite (< %s %s) %s (ite (> %s %s) %s %s))" % (a, _q(Fraction(lo)), _q(lo), a, _q(Fraction(hi)), _q(hi), tr)

    def bool_term(self, a):
        return self.lit(a)


def conc_float_bin(op, a, b, ty):
    fa, fb = float(a), float(b)
    r = {"Mul": fa * fb, "Div": fa / fb, "Add": fa + fb, "Sub": fa - fb}[op]
    if ty == "f32":
        r = f32_round(r)
    return Fraction(r)


def parse_float_literal(text, ty):
    t = text.replace("_", "")
    t = re.sub(r"f(32|64)$", "", t)
    v = float(t)
    if ty == "f32":
        v = f32_round(v)
    return Fraction(v)


class ConcreteDomain:
    """Evaluates the same MIR concretely (IEEE doubles, correctly rounded singles)."""

    def __init__(self):
        self.asserts = []
        self.float_ops = []
        self.overflow_terms = []

    def is_conc(self, t):
        return True

    def int_const(self, v):
        return int(v)

    def int_bin(self, op, a, b, ty):
        r = {"Add": a + b, "Sub": a - b, "Mul": a * b}[op]
        lo, hi = int_range(ty)
        return r, not (lo <= r <= hi)

    def int_div(self, a, b, ty):
        q = abs(a) // abs(b)
        return q if (a >= 0) == (b >= 0) else -q

    def wrap(self, a, ty):
        lo, hi = int_range(ty)
        return (a - lo) % (hi - lo + 1) + lo

    def cmp(self, op, a, b, real=False):
        return {"Ge": a >= b, "Gt": a > b, "Le": a <= b, "Lt": a < b, "Eq": a == b, "Ne": a != b}[op]

    def not_(self, a):
        return not a

    def float_const(self, text, ty):
        return parse_float_literal(text, ty)

    def float_bin(self, op, a, b, ty):
        return conc_float_bin(op, a, b, ty)

    def int_to_float(self, a, ity, fty):
        return Fraction(float(a)) if fty == "f64" else Fraction(f32_round(float(a)))

    def float_to_int(self, a, fty, ity):
        lo, hi = int_range(ity)
        return max(lo, min(hi, math.trunc(Fraction(a))))

    def bool_term(self, a):
        return a


# ------------------------------------------------------------------------------------------------
# executor
# ------------------------------------------------------------------------------------------------

CARRIER_VT = {"U8": "u8", "U16": "u16", "U32": "u32", "U64": "u64", "I8": "i8", "I16": "i16", "I32": "i32", "I64": "i64",
              "SM8": "i8", "SM16": "i16", "SM32": "i32", "SM64": "i64"}


class Exec:
    def __init__(self, func, dom, args, parse_values=None):
        """args: {local: V}; parse_values: list of V returned by successive Parser::parse calls"""
        self.f, self.d = func, dom
        self.parse_values = list(parse_values or [])
        self.paths = []
        p = Path()
        p.env.update(args)
        self._run(p, "bb0", 0)

    # ---- operand / place handling
    def _ty(self, local):
        return self.f.locals.get(local)

    def _read_place(self, p, s):
        s = s.strip()
        m = re.fullmatch(r"\(\*(_\d+)\)", s)
        if m:
            v = p.env[m.group(1)]
            if v.kind == "ref":
                return p.env[v.t] if isinstance(v.t, str) and v.t in p.env else v.parts
            return v  # argument passed as the referent itself
        m = re.fullmatch(r"\((_\d+)\.(\d+): [^)]+\)", s)
        if m:
            v = p.env[m.group(1)]
            return v.parts[int(m.group(2))]
        m = re.fullmatch(r"\(\((_\d+) as (\w+)\)\.0: .+\)", s)
        if m:
            v = p.env[m.group(1)]
            if v.kind in ("cont", "brk", "opt_some", "ok", "err"):
                return v.parts[0]
            if v.kind == "opt":
                return v.parts[1]
            raise Unsupported("downcast of %s" % v.kind)
        if re.fullmatch(r"_\d+", s):
            if s not in p.env:
                raise Unsupported("read of unset local %s in %s" % (s, self.f.name))
            return p.env[s]
        raise Unsupported("place %r" % s)

    def _operand(self, p, s):
        s = s.strip()
        if s.startswith("copy ") or s.startswith("move "):
            return self._read_place(p, s[5:])
        if s.startswith("const "):
            return self._const(s[6:].strip())
        raise Unsupported("operand %r" % s)

    def _const(self, c):
        m = re.fullmatch(r"(-?[\d_]+)_(u8|u16|u32|u64|usize|i8|i16|i32|i64|isize)", c)
        if m:
            return V("int", m.group(2), self.d.int_const(int(m.group(1).replace("_", ""))))
        m = re.fullmatch(r"(-?[\d\._eE+\-]+?)(f32|f64)", c)
        if m:
            return V("float", m.group(2), self.d.float_const(m.group(1), m.group(2)))
        if c in ("true", "false"):
            return V("bool", "bool", c == "true")
        m = re.fullmatch(r"(u8|u16|u32|u64|usize|i8|i16|i32|i64|isize)::(MAX|MIN)", c)
        if m:
            lo, hi = int_range(m.group(1))
            return V("int", m.group(1), hi if m.group(2) == "MAX" else lo)
        m = re.fullmatch(r"(?:rtcm_error::)?RtcmError::(\w+)", c)
        if m:
            return V("enum", "RtcmError", m.group(1))
        raise Unsupported("const %r" % c)

    # ---- statements
    def _assign(self, p, dst, rhs):
        d = self.d
        rhs = rhs.strip()
        dty = self._ty(dst) if re.fullmatch(r"_\d+", dst) else None
        val = None
        m = re.fullmatch(r"(Add|Sub|Mul|Div|Ge|Gt|Le|Lt|Eq|Ne|AddWithOverflow|SubWithOverflow|MulWithOverflow)\((.+)\)", rhs)
        if m:
            op = m.group(1)
            a, b = [self._operand(p, x) for x in _split_top(m.group(2))]
            if op in ("Ge", "Gt", "Le", "Lt", "Eq", "Ne"):
                val = V("bool", "bool", d.cmp(op, a.t, b.t, real=(a.kind == "float")))
            elif op.endswith("WithOverflow"):
                r, ov = d.int_bin(op[:3], a.t, b.t, a.ty)
                val = V("tuple", None, None, [V("int", a.ty, d.wrap(r, a.ty) if False else r), V("bool", "bool", ov)])
            elif a.kind == "float":
                val = V("float", a.ty, d.float_bin(op, a.t, b.t, a.ty))
            elif a.kind == "int":
                if op == "Div":
                    val = V("int", a.ty, d.int_div(a.t, b.t, a.ty))
                else:
                    # unchecked int op (overflow-checks would have produced *WithOverflow)
                    r, ov = d.int_bin(op, a.t, b.t, a.ty)
                    val = V("int", a.ty, d.wrap(r, a.ty))
            else:
                raise Unsupported("binop on %s" % a.kind)
        elif re.fullmatch(r"(copy|move) .+ as \w+ \((IntToFloat|FloatToInt|IntToInt)\)", rhs):
            mm = re.fullmatch(r"((?:copy|move) .+) as (\w+) \((\w+)\)", rhs)
            a = self._operand(p, mm.group(1))
            tgt, how = mm.group(2), mm.group(3)
            if how == "IntToFloat":
                val = V("float", tgt, d.int_to_float(a.t, a.ty, tgt))
            elif how == "FloatToInt":
                val = V("int", tgt, d.float_to_int(a.t, a.ty, tgt))
            else:
                slo, shi = int_range(a.ty)
                tlo, thi = int_range(tgt)
                if tlo <= slo and shi <= thi:
                    val = V("int", tgt, a.t)   # widening: value preserved
                else:
                    val = V("int", tgt, d.wrap(a.t, tgt))
        elif rhs.startswith("&"):
            mm = re.fullmatch(r"&(?:mut )?(_\d+)", rhs)
            if not mm:
                mm2 = re.fullmatch(r"&(?:mut )?\(\*(_\d+)\)", rhs)
                if mm2:
                    val = p.env[mm2.group(1)]
                else:
                    raise Unsupported("ref %r" % rhs)
            else:
                val = V("ref", None, mm.group(1))
        elif rhs.startswith("discriminant("):
            v = self._read_place(p, rhs[len("discriminant("):-1])
            if v.kind in ("cont", "ok"):
                val = V("int", "isize", 0)
            elif v.kind in ("brk", "err"):
                val = V("int", "isize", 1)
            elif v.kind == "opt":
                # None = 0, Some = 1
                if v.parts[0] is True or v.parts[0] is False:
                    val = V("int", "isize", 1 if v.parts[0] else 0)
                else:
                    val = V("optdisc", "isize", v.parts[0])
            else:
                raise Unsupported("discriminant of %s" % v.kind)
        elif re.fullmatch(r"Option::<.+>::None", rhs):
            val = V("opt", None, None, [False, None])
        elif re.fullmatch(r"Option::<.+>::Some\((.+)\)", rhs):
            inner = self._operand(p, re.fullmatch(r"Option::<.+>::Some\((.+)\)", rhs).group(1))
            val = V("opt", None, None, [True, inner])
        elif re.fullmatch(r"Result::<.+>::Ok\((.+)\)", rhs):
            inner = self._operand(p, re.fullmatch(r"Result::<.+>::Ok\((.+)\)", rhs).group(1))
            val = V("ok", None, None, [inner])
        elif re.fullmatch(r"Result::<.+>::Err\((.+)\)", rhs):
            inner = self._operand(p, re.fullmatch(r"Result::<.+>::Err\((.+)\)", rhs).group(1))
            val = V("err", None, None, [inner])
        elif re.fullmatch(r"(?:rtcm_error::)?RtcmError::\w+", rhs):
            val = V("enum", "RtcmError", rhs.split("::")[-1])
        elif rhs == "()" or rhs == "const ()":
            val = V("unit")
        else:
            val = self._operand(p, rhs)
        # destination
        mm = re.fullmatch(r"\(\*(_\d+)\)", dst)
        if mm:
            ref = p.env[mm.group(1)]
            if ref.kind == "ref":
                p.env[ref.t] = val
                return
            raise Unsupported("store through non-ref")
        if not re.fullmatch(r"_\d+", dst):
            raise Unsupported("assignment destination %r" % dst)
        p.env[dst] = val

    def _call(self, p, dst, callee, argstr):
        d = self.d
        args = [self._operand(p, a) for a in _split_top(argstr)] if argstr.strip() else []
        m = re.search(r"Assembler::<'_>::put::<(?:bit_value::)?(\w+)>", callee)
        if m:
            ln = args[2].t
            p.events.append(("put", m.group(1), args[1], ln))
            p.env[dst] = V("ok", None, None, [V("unit")])
            return
        m = re.search(r"Parser::<'_>::parse::<(?:bit_value::)?(\w+)>", callee)
        if m:
            if not self.parse_values:
                raise Unsupported("unexpected parse call")
            v = self.parse_values.pop(0)
            p.events.append(("parse", m.group(1), v, args[1].t))
            p.env[dst] = V("ok", None, None, [v])
            return
        if "as Try>::branch" in callee:
            v = args[0]
            p.env[dst] = V("cont", None, None, v.parts) if v.kind == "ok" else V("brk", None, None, [v])
            return
        if "FromResidual" in callee:
            v = args[0]
            p.env[dst] = v if v.kind == "err" else V("err", None, None, [v])
            return
        if re.search(r"Option::<.+>::is_none", callee):
            o = args[0]
            p.env[dst] = V("bool", "bool", d.not_(o.parts[0]))
            return
        if re.search(r"Option::<.+>::is_some", callee):
            o = args[0]
            p.env[dst] = V("bool", "bool", o.parts[0])
            return
        if re.search(r"Option::<.+>::unwrap", callee):
            o = args[0]
            if o.parts[0] is False:
                p.outcome = ("panic", "unwrap on None")
                return "stop"
            if o.parts[0] is not True:
                # the caller must have established is_some on this path
                p.side.append(("is_some", o.parts[0]))
            p.env[dst] = o.parts[1]
            return
        m = re.search(r"<(\w+) as (?:df::)?BiasSub>::bias_sub", callee)
        if m:
            # src/df/mod.rs: integers -> checked_sub, floats -> Some(self - bias)
            ty = m.group(1)
            a, b = args
            if ty in FLOAT:
                p.env[dst] = V("opt", None, None, [True, V("float", ty, d.float_bin("Sub", a.t, b.t, ty))])
            else:
                r, ov = d.int_bin("Sub", a.t, b.t, ty)
                p.env[dst] = V("opt", None, None, [d.not_(ov), V("int", ty, r)])
            return
        raise Unsupported("call %s" % callee)

    def _run(self, p, bb, depth):
        if depth > 200:
            raise Unsupported("path too long")
        d = self.d
        for stmt in self.f.blocks[bb]:
            s = stmt.rstrip(";").strip() if not stmt.startswith("switchInt") else stmt.strip()
            if s.startswith("StorageLive") or s.startswith("StorageDead") or s.startswith("FakeRead") or s.startswith("PlaceMention") or s.startswith("AscribeUserType") or s == "nop":
                continue
            if s == "return":
                p.outcome = ("return", p.env.get("_0"))
                self.paths.append(p)
                return
            if s == "unreachable":
                p.outcome = ("unreachable", None)
                self.paths.append(p)
                return
            m = re.fullmatch(r"goto -> (bb\d+)", s)
            if m:
                return self._run(p, m.group(1), depth + 1)
            m = re.fullmatch(r"switchInt\((.+?)\) -> \[(.+)\];?", s)
            if m:
                v = self._operand(p, m.group(1))
                targets = []
                other = None
                for t in m.group(2).split(","):
                    k, b = [x.strip() for x in t.split(":")]
                    if k == "otherwise":
                        other = b
                    else:
                        targets.append((int(k), b))
                if d.is_conc(v.t):
                    val = int(v.t) if not isinstance(v.t, bool) else (1 if v.t else 0)
                    for k, b in targets:
                        if k == val:
                            return self._run(p, b, depth + 1)
                    return self._run(p, other, depth + 1)
                if v.kind == "optdisc":
                    t1 = [b for k, b in targets if k == 1]
                    t0 = [b for k, b in targets if k == 0]
                    p2 = p.clone()
                    p.cond.append(v.t)
                    p2.cond.append(d.not_(v.t))
                    self._run(p, t1[0] if t1 else other, depth + 1)
                    self._run(p2, t0[0] if t0 else other, depth + 1)
                    return
                if v.kind != "bool":
                    raise Unsupported("symbolic switch on non-bool in %s" % self.f.name)
                # bool: 0 -> false target
                fb = [b for k, b in targets if k == 0]
                tb = other if other else [b for k, b in targets if k == 1][0]
                p2 = p.clone()
                p.cond.append(v.t)
                p2.cond.append(d.not_(v.t))
                self._run(p, tb, depth + 1)
                self._run(p2, fb[0] if fb else other, depth + 1)
                return
            m = re.fullmatch(r"assert\((!?)(.+?), \"(.*?)\".*\) -> \[success: (bb\d+), unwind[^\]]*\]", s)
            if m:
                neg, cond, msg, succ = m.group(1), self._operand(p, m.group(2)), m.group(3), m.group(4)
                c = cond.t
                ok = d.not_(c) if neg else c
                if d.is_conc(ok):
                    if ok:
                        return self._run(p, succ, depth + 1)
                    p.outcome = ("panic", msg)
                    self.paths.append(p)
                    return
                p2 = p.clone()
                p2.cond.append(d.not_(ok))
                p2.outcome = ("panic", msg)
                self.paths.append(p2)
                p.cond.append(ok)
                return self._run(p, succ, depth + 1)
            m = re.fullmatch(r"(.+?) = (.+?)\((.*)\) -> \[return: (bb\d+), unwind[^\]]*\]", s)
            if m and ("::" in m.group(2) or "<" in m.group(2)):
                r = self._call(p, m.group(1).strip(), m.group(2), m.group(3))
                if r == "stop":
                    self.paths.append(p)
                    return
                return self._run(p, m.group(4), depth + 1)
            m = re.fullmatch(r"(.+?) = (.+)", s)
            if m:
                self._assign(p, m.group(1).strip(), m.group(2))
                continue
            raise Unsupported("statement %r in %s" % (s, self.f.name))
        raise Unsupported("block %s of %s fell through" % (bb, self.f.name))


# ------------------------------------------------------------------------------------------------
# bit channel contract (C07): what put writes / parse returns
# ------------------------------------------------------------------------------------------------

def channel_pattern(dom, it, v, ln):
    """unsigned len-bit wire pattern produced by put::<it>(v, len) (Int term)."""
    kind = "u" if it.startswith("U") else ("s" if it.startswith("I") else "sm")
    mod = 1 << ln
    if kind in ("u", "s"):
        if dom.is_conc(v):
            return v % mod
        return "(mod %s %s)" % (v, _q(mod))
    # sign-magnitude: sign_fix_rev then low len bits. Real code: if val & (1<<(len-1)) == 0 {val} else {((!val)+1)|(1<<(len-1))}
    # For |v| < 2^(len-1): v >= 0 -> v ; v < 0 -> 2^(len-1) + (-v). Outside that range the pattern
    # is whatever the bit tricks give; the callers only use in-range magnitudes (checked by side condition).
    half = 1 << (ln - 1)
    if dom.is_conc(v):
        if -half < v < half:
            return v if v >= 0 else half + (-v)
        raise Unsupported("sign-magnitude value out of range in concrete evaluation")
    return "(ite (>= %s 0) (mod %s %s) (+ %s (mod (- %s) %s)))" % (v, v, _q(half), _q(half), v, _q(half))


def channel_value(dom, it, pat, ln):
    """value returned by parse::<it>(len) for unsigned pattern `pat`."""
    kind = "u" if it.startswith("U") else ("s" if it.startswith("I") else "sm")
    half = 1 << (ln - 1)
    if kind == "u":
        return pat
    if kind == "s":
        if dom.is_conc(pat):
            return pat - (1 << ln) if pat >= half else pat
        return "(ite (>= %s %s) (- %s %s) %s)" % (pat, _q(half), pat, _q(1 << ln), pat)
    if dom.is_conc(pat):
        return -(pat - half) if pat >= half else pat
    return "(ite (>= %s %s) (- (- %s %s)) %s)" % (pat, _q(half), pat, _q(half), pat)


# ------------------------------------------------------------------------------------------------
# solver plumbing
# ------------------------------------------------------------------------------------------------

import subprocess
import time


def solve(script, solver="z3", timeout_s=60):
    """returns (verdict, model_text, seconds). verdict in sat/unsat/unknown/error"""
    t0 = time.time()
    if solver == "z3":
        cmd = ["z3", "-in", "-T:%d" % timeout_s]
    else:
        cmd = ["cvc5", "--lang", "smt2", "--produce-models", "--tlimit=%d" % (timeout_s * 1000)]
    try:
        p = subprocess.run(cmd, input=script, capture_output=True, text=True, timeout=timeout_s + 10)
    except subprocess.TimeoutExpired:
        return "unknown", "timeout", time.time() - t0
    out = p.stdout.strip()
    dt = time.time() - t0
    if "(error" in out or "error" in p.stderr.lower():
        return "error", (out + p.stderr)[:500], dt
    first = out.split("\n")[0].strip() if out else ""
    if first in ("sat", "unsat", "unknown"):
        return first, out[len(first):].strip(), dt
    return "error", out[:500], dt
