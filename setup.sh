#!/bin/sh
# Offline setup after a fresh restore: nothing to install. Verifies the tools are present and warms
# the Kani build of /repo (so the first check does not pay it).
set -e
cd "$(dirname "$0")"
command -v cargo >/dev/null
cargo kani --version
z3 --version || true
cvc5 --version | head -1 || true
mkdir -p evidence work
exit 0
